//! Own PRNG (SplitMix64 seeding + xoshiro256**). No dependency on any `rand`
//! version, never seeded from time, never used in logging paths.

#[derive(Clone, Debug)]
pub struct Rng {
    s: [u64; 4],
}

pub fn splitmix64(state: &mut u64) -> u64 {
    *state = state.wrapping_add(0x9E37_79B9_7F4A_7C15);
    let mut z = *state;
    z = (z ^ (z >> 30)).wrapping_mul(0xBF58_476D_1CE4_E5B9);
    z = (z ^ (z >> 27)).wrapping_mul(0x94D0_49BB_1331_11EB);
    z ^ (z >> 31)
}

/// Derive the per-run seed from (base seed, simulator id, run index).
pub fn mix(base: u64, sim_id: u64, run: u64) -> u64 {
    let mut s = base ^ sim_id.wrapping_mul(0xA24B_AED4_963E_E407) ^ run.wrapping_mul(0x9FB2_1C65_1E98_DF25);
    let a = splitmix64(&mut s);
    let b = splitmix64(&mut s);
    a ^ b.rotate_left(17)
}

impl Rng {
    pub fn new(seed: u64) -> Self {
        let mut sm = seed;
        let s = [splitmix64(&mut sm), splitmix64(&mut sm), splitmix64(&mut sm), splitmix64(&mut sm)];
        Rng { s }
    }

    pub fn next_u64(&mut self) -> u64 {
        let result = self.s[1].wrapping_mul(5).rotate_left(7).wrapping_mul(9);
        let t = self.s[1] << 17;
        self.s[2] ^= self.s[0];
        self.s[3] ^= self.s[1];
        self.s[1] ^= self.s[2];
        self.s[0] ^= self.s[3];
        self.s[2] ^= t;
        self.s[3] = self.s[3].rotate_left(45);
        result
    }

    /// uniform in 0..n (n > 0)
    pub fn below(&mut self, n: u64) -> u64 {
        debug_assert!(n > 0);
        // multiply-shift; bias is irrelevant here
        ((self.next_u64() as u128 * n as u128) >> 64) as u64
    }

    pub fn usize_below(&mut self, n: usize) -> usize {
        self.below(n as u64) as usize
    }

    /// inclusive range
    pub fn range(&mut self, lo: i64, hi: i64) -> i64 {
        debug_assert!(hi >= lo);
        lo + self.below((hi - lo + 1) as u64) as i64
    }

    pub fn chance(&mut self, num: u64, den: u64) -> bool {
        self.below(den) < num
    }

    pub fn pick<'a, T>(&mut self, xs: &'a [T]) -> &'a T {
        &xs[self.usize_below(xs.len())]
    }

    pub fn shuffle<T>(&mut self, xs: &mut [T]) {
        for i in (1..xs.len()).rev() {
            let j = self.usize_below(i + 1);
            xs.swap(i, j);
        }
    }

    /// weighted index
    pub fn weighted(&mut self, weights: &[u32]) -> usize {
        let total: u64 = weights.iter().map(|&w| w as u64).sum();
        debug_assert!(total > 0);
        let mut r = self.below(total);
        for (i, &w) in weights.iter().enumerate() {
            if r < w as u64 {
                return i;
            }
            r -= w as u64;
        }
        weights.len() - 1
    }
}

/// FNV-1a 64 for event-log hashes (stable across runs and platforms).
#[derive(Clone, Copy)]
pub struct Fnv(pub u64);

impl Default for Fnv {
    fn default() -> Self {
        Fnv(0xcbf2_9ce4_8422_2325)
    }
}

impl Fnv {
    pub fn write(&mut self, bytes: &[u8]) {
        for &b in bytes {
            self.0 ^= b as u64;
            self.0 = self.0.wrapping_mul(0x0000_0100_0000_01B3);
        }
    }
    pub fn write_str(&mut self, s: &str) {
        self.write(s.as_bytes());
        self.write(&[0xff]);
    }
    pub fn write_u64(&mut self, v: u64) {
        self.write(&v.to_le_bytes());
    }
}

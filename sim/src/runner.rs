//! Parent/worker process model, aggregation, minimisation, replay files, evidence files.
//!
//! Exit codes: 0 = held on everything explored (known findings are printed and tolerated),
//! 1 = at least one `VIOLATION property=<id> replay=<path>`, 2 = harness error.

use std::collections::{BTreeMap, HashSet};
use std::io::{BufRead, BufReader, Write};
use std::path::{Path, PathBuf};
use std::process::{Command, Stdio};
use std::sync::mpsc;
use std::time::{Duration, Instant};

use serde::{Deserialize, Serialize};
use serde_json::{json, Value};

use crate::checks::{self, CheckDef, Ctx, Plan};
use crate::common::{seed_from_env, RunResult, Violation};
use crate::refchess;
use crate::rng;

fn verif_dir() -> PathBuf {
    if let Ok(d) = std::env::var("VERIF_DIR") {
        return PathBuf::from(d);
    }
    // the binary lives in <verif>/target/release/sim
    let exe = std::env::current_exe().unwrap_or_else(|_| PathBuf::from("/verif/target/release/sim"));
    exe.parent().and_then(Path::parent).and_then(Path::parent).map(Path::to_path_buf).unwrap_or_else(|| PathBuf::from("/verif"))
}

#[derive(Clone, Debug, Serialize, Deserialize)]
pub struct ReplayFile {
    pub property: String,
    pub class: String,
    pub detail: String,
    pub trigger: BTreeMap<String, Value>,
    pub check: String,
    pub seed: u64,
    pub run: u64,
    pub expected_hash: u64,
    pub minimised: bool,
    pub original_size: usize,
    pub plan: Plan,
}

#[derive(Clone, Debug, Deserialize)]
struct KnownFinding {
    status: String,
    property: String,
    #[serde(default)]
    class: Option<String>,
    #[serde(default, rename = "match")]
    matcher: BTreeMap<String, Value>,
    what: String,
}

fn load_known() -> Vec<KnownFinding> {
    let p = verif_dir().join("known_findings.jsonl");
    let mut v = Vec::new();
    if let Ok(s) = std::fs::read_to_string(p) {
        for l in s.lines() {
            let l = l.trim();
            if l.is_empty() || l.starts_with('#') {
                continue;
            }
            match serde_json::from_str::<KnownFinding>(l) {
                Ok(k) => v.push(k),
                Err(e) => eprintln!("warning: unreadable known_findings line: {} ({})", l, e),
            }
        }
    }
    v
}

fn matches_known<'a>(v: &Violation, known: &'a [KnownFinding]) -> Option<&'a KnownFinding> {
    known.iter().find(|k| {
        k.status == "finding" && k.property == v.property && k.class.as_ref().map_or(true, |c| *c == v.class) && k.matcher.iter().all(|(key, val)| v.trigger.get(key) == Some(val))
    })
}

pub fn main(args: &[String]) -> i32 {
    if args.is_empty() {
        eprintln!("usage: sim selftest | check <ID> [--tier quick|thorough] [--jobs N] [--runs N] | worker ... | exec-plan <file> | replay <file> | list");
        return 2;
    }
    match args[0].as_str() {
        "selftest" => selftest(args.iter().any(|a| a == "--deep")),
        "list" => {
            for c in checks::CHECKS {
                println!("{} {}", c.id, c.sim);
            }
            0
        }
        "check" => check(&args[1..]),
        "worker" => worker(&args[1..]),
        "exec-plan" => exec_plan_cmd(&args[1..]),
        "replay" => replay(&args[1..]),
        "determinism" => determinism(&args[1..]),
        "gen-mates" => gen_mates(&args[1..]),
        other => {
            eprintln!("unknown command {}", other);
            2
        }
    }
}

fn selftest(deep: bool) -> i32 {
    let t = Instant::now();
    match refchess::self_test(deep) {
        Ok(n) => {
            // pool sanity
            let pool = crate::pool::pool();
            eprintln!("reference self-test ok: {} perft leaves, pool {} positions, {:.2}s", n, pool.len(), t.elapsed().as_secs_f64());
            0
        }
        Err(e) => {
            eprintln!("REFERENCE SELF-TEST FAILED: {}", e);
            2
        }
    }
}

fn arg_value<'a>(args: &'a [String], name: &str) -> Option<&'a str> {
    args.iter().position(|a| a == name).and_then(|i| args.get(i + 1)).map(String::as_str)
}

fn tier_from(args: &[String]) -> String {
    arg_value(args, "--tier").map(str::to_string).or_else(|| std::env::var("VERIF_TIER").ok()).filter(|t| t == "quick" || t == "thorough").unwrap_or_else(|| "quick".to_string())
}

// ------------------------------------------------------------------ worker

fn worker(args: &[String]) -> i32 {
    // worker <ID> <tier> <base_seed> <from> <to>
    if args.len() < 5 {
        return 2;
    }
    let def = match checks::find(&args[0]) {
        Some(d) => d,
        None => return 2,
    };
    let thorough = args[1] == "thorough";
    let base: u64 = args[2].parse().unwrap_or(0);
    let from: u64 = args[3].parse().unwrap_or(0);
    let to: u64 = args[4].parse().unwrap_or(0);
    let ctx = Ctx::new(matches!(def.sim, "engine_exact" | "symmetry"));
    // panics inside the code under test are caught and turned into verdicts; keep stderr quiet
    crate::sched::set_role(crate::sched::Role::S);
    crate::enginesim::install_panic_hook();
    let stdout = std::io::stdout();
    for run in from..to {
        let seed = rng::mix(base, def.sim_id, run);
        let plan = checks::gen_plan(def, &ctx, seed, thorough);
        let mut res = checks::exec_plan(&plan);
        res.run = run;
        res.seed = seed;
        let bad = res.violation.is_some();
        if bad || res.foreign.is_some() || run < 3 {
            res.plan = serde_json::to_value(&plan).ok();
        }
        let line = serde_json::to_string(&res).unwrap_or_else(|_| "{}".into());
        {
            let mut o = stdout.lock();
            let _ = writeln!(o, "{}", line);
            let _ = o.flush();
        }
        if def.exit_on_violation && (bad || res.foreign.is_some()) {
            std::process::exit(0);
        }
    }
    {
        let mut o = stdout.lock();
        let _ = writeln!(o, "{{\"done\":true}}");
        let _ = o.flush();
    }
    std::process::exit(0);
}

fn exec_plan_cmd(args: &[String]) -> i32 {
    let path = match args.first() {
        Some(p) => p,
        None => return 2,
    };
    let text = match std::fs::read_to_string(path) {
        Ok(t) => t,
        Err(_) => return 2,
    };
    let plan: Plan = match serde_json::from_str(&text) {
        Ok(p) => p,
        Err(e) => {
            eprintln!("bad plan: {}", e);
            return 2;
        }
    };
    crate::sched::set_role(crate::sched::Role::S);
    crate::enginesim::install_panic_hook();
    let res = checks::exec_plan(&plan);
    println!("{}", serde_json::to_string(&res).unwrap_or_default());
    let _ = std::io::stdout().flush();
    std::process::exit(0);
}

/// Execute a plan in a child process (contains aborts, hangs and stray threads).
fn exec_in_child(plan: &Plan, tag: &str, timeout: Duration) -> Option<RunResult> {
    let dir = verif_dir().join("replays").join("tmp");
    let _ = std::fs::create_dir_all(&dir);
    let file = dir.join(format!("cand-{}-{}.json", std::process::id(), tag));
    std::fs::write(&file, serde_json::to_string(plan).ok()?).ok()?;
    let exe = if matches!(plan, Plan::Api(_)) { api_exe() } else { std::env::current_exe().ok()? };
    let mut child = Command::new(exe).arg("exec-plan").arg(&file).stdout(Stdio::piped()).stderr(Stdio::null()).spawn().ok()?;
    let out = child.stdout.take()?;
    let (tx, rx) = mpsc::channel();
    std::thread::spawn(move || {
        let mut s = String::new();
        let mut r = BufReader::new(out);
        let _ = r.read_line(&mut s);
        let _ = tx.send(s);
    });
    let line = rx.recv_timeout(timeout).ok();
    let _ = child.kill();
    let _ = child.wait();
    let _ = std::fs::remove_file(&file);
    line.and_then(|l| serde_json::from_str::<RunResult>(l.trim()).ok())
}

// ------------------------------------------------------------------ minimisation

fn same_failure(a: &Violation, b: &Violation) -> bool {
    a.property == b.property && a.class == b.class && a.trigger == b.trigger
}

fn minimise(plan: &Plan, target: &Violation, budget: usize) -> (Plan, usize) {
    let mut best = plan.clone();
    let mut used = 0;
    let mut improved = true;
    while improved && used < budget {
        improved = false;
        let cands = checks::shrink_candidates(&best);
        // run candidates in parallel batches, accept the first (in order) that still fails the same way
        let mut idx = 0;
        while idx < cands.len() && used < budget {
            let batch: Vec<(usize, Plan)> = cands[idx..(idx + 16).min(cands.len())].iter().cloned().enumerate().map(|(i, p)| (idx + i, p)).collect();
            idx += batch.len();
            used += batch.len();
            let handles: Vec<_> = batch
                .into_iter()
                .map(|(i, p)| {
                    std::thread::spawn(move || {
                        let r = exec_in_child(&p, &format!("{}", i), Duration::from_secs(60));
                        (i, p, r)
                    })
                })
                .collect();
            let mut results: Vec<(usize, Plan, Option<RunResult>)> = handles.into_iter().filter_map(|h| h.join().ok()).collect();
            results.sort_by_key(|r| r.0);
            let mut accepted = None;
            for (_, p, r) in results {
                if let Some(r) = r {
                    if let Some(v) = r.violation.as_ref().or(r.foreign.as_ref()) {
                        if same_failure(v, target) && checks::plan_size(&p) <= checks::plan_size(&best) && p != best {
                            accepted = Some(p);
                            break;
                        }
                    }
                }
            }
            if let Some(p) = accepted {
                best = p;
                improved = true;
                break;
            }
        }
    }
    (best, used)
}

// ------------------------------------------------------------------ parent

struct Agg {
    results: u64,
    nontrivial_hashes: HashSet<u64>,
    shapes: HashSet<u64>,
    counters: BTreeMap<String, u64>,
    steps: u64,
    sim_ns: u64,
    violations: Vec<RunResult>,
    foreign: Vec<RunResult>,
    samples: Vec<Value>,
    run_hashes: BTreeMap<u64, u64>,
}

fn api_exe() -> PathBuf {
    verif_dir().join("target_api").join("release").join("sim_api")
}

fn run_workers(def: &CheckDef, tier: &str, base: u64, runs: u64, jobs: u64) -> Result<Agg, String> {
    let exe = if def.sim == "api" { api_exe() } else { std::env::current_exe().map_err(|e| e.to_string())? };
    if !exe.exists() {
        return Err(format!("worker binary {} is missing (run ./run setup)", exe.display()));
    }
    let (tx, rx) = mpsc::channel::<(u64, Option<RunResult>, bool)>();
    let per = (runs + jobs - 1) / jobs;
    let mut slices = Vec::new();
    for j in 0..jobs {
        let from = j * per;
        let to = ((j + 1) * per).min(runs);
        if from < to {
            slices.push((from, to));
        }
    }
    let n_slices = slices.len();
    // once a few hundred violating runs are in, running the rest adds nothing: stop respawning workers
    let abort = std::sync::Arc::new(std::sync::atomic::AtomicBool::new(false));
    for (wid, (from, to)) in slices.into_iter().enumerate() {
        let tx = tx.clone();
        let abort = abort.clone();
        let exe = exe.clone();
        let id = def.id.to_string();
        let tier = tier.to_string();
        std::thread::spawn(move || {
            let mut next = from;
            let mut respawns = 0;
            while next < to && !abort.load(std::sync::atomic::Ordering::SeqCst) {
                let mut child = match Command::new(&exe).args(["worker", &id, &tier, &base.to_string(), &next.to_string(), &to.to_string()]).stdout(Stdio::piped()).stderr(Stdio::null()).spawn() {
                    Ok(c) => c,
                    Err(_) => break,
                };
                let out = child.stdout.take().unwrap();
                let reader = BufReader::new(out);
                let mut done = false;
                let mut last = None;
                for line in reader.lines() {
                    if abort.load(std::sync::atomic::Ordering::SeqCst) {
                        let _ = child.kill();
                        break;
                    }
                    let line = match line {
                        Ok(l) => l,
                        Err(_) => break,
                    };
                    if line.contains("\"done\":true") {
                        done = true;
                        break;
                    }
                    if let Ok(r) = serde_json::from_str::<RunResult>(&line) {
                        last = Some(r.run);
                        let _ = tx.send((wid as u64, Some(r), false));
                    }
                }
                let _ = child.wait();
                if done {
                    break;
                }
                // the worker exited early: either by design after a violating run, or it died
                let resumed_from = next;
                next = match last {
                    Some(l) => l + 1,
                    None => next, // died before reporting anything
                };
                if last.is_none() || next == resumed_from {
                    respawns += 1;
                    if respawns > 3 {
                        let _ = tx.send((next, None, true)); // harness error marker: run `next` kills the worker
                        break;
                    }
                } else {
                    respawns = 0;
                }
            }
            let _ = tx.send((wid as u64, None, false));
        });
    }
    drop(tx);
    let mut agg = Agg { results: 0, nontrivial_hashes: HashSet::new(), shapes: HashSet::new(), counters: BTreeMap::new(), steps: 0, sim_ns: 0, violations: Vec::new(), foreign: Vec::new(), samples: Vec::new(), run_hashes: BTreeMap::new() };
    let mut finished = 0;
    let mut dead_run: Option<u64> = None;
    let watchdog = Duration::from_secs(if tier == "thorough" { 1800 } else { 600 });
    loop {
        match rx.recv_timeout(watchdog) {
            Ok((_, Some(r), _)) => {
                agg.results += 1;
                if r.nontrivial {
                    agg.nontrivial_hashes.insert(r.hash);
                }
                agg.shapes.insert(r.shape);
                agg.steps += r.steps;
                agg.sim_ns += r.sim_ns;
                agg.run_hashes.insert(r.run, r.hash);
                for (k, v) in &r.counters {
                    *agg.counters.entry(k.clone()).or_insert(0) += v;
                }
                if r.run < 3 {
                    if let Some(p) = &r.plan {
                        agg.samples.push(json!({"run": r.run, "seed": r.seed, "plan": truncate_plan(p)}));
                    }
                }
                if r.violation.is_some() {
                    agg.violations.push(r);
                    if agg.violations.len() >= 400 {
                        abort.store(true, std::sync::atomic::Ordering::SeqCst);
                    }
                } else if r.foreign.is_some() {
                    agg.foreign.push(r);
                }
            }
            Ok((run, None, true)) => dead_run = Some(run),
            Ok((_, None, false)) => {
                finished += 1;
                if finished == n_slices {
                    break;
                }
            }
            Err(_) => return Err("watchdog: no worker output for too long".to_string()),
        }
    }
    if let Some(r) = dead_run {
        return Err(format!("worker process died repeatedly at run {} (seed {})", r, rng::mix(base, def.sim_id, r)));
    }
    let aborted = abort.load(std::sync::atomic::Ordering::SeqCst);
    if agg.results != runs && !aborted {
        return Err(format!("expected {} run results, got {}", runs, agg.results));
    }
    if aborted {
        eprintln!("note: stopped early after {} violating runs ({} of {} runs executed)", agg.violations.len(), agg.results, runs);
    }
    Ok(agg)
}

fn truncate_plan(p: &Value) -> Value {
    let mut p = p.clone();
    for key in ["ops", "cycles", "events", "lines"] {
        if let Some(arr) = p.get_mut(key).and_then(Value::as_array_mut) {
            if arr.len() > 40 {
                let n = arr.len();
                arr.truncate(40);
                arr.push(json!(format!("... {} more", n - 40)));
            }
        }
    }
    p
}

fn sig(v: &Violation) -> String {
    format!("{}|{}|{}", v.property, v.class, serde_json::to_string(&v.trigger).unwrap_or_default())
}

fn check(args: &[String]) -> i32 {
    let id = match args.first() {
        Some(i) => i.clone(),
        None => return 2,
    };
    let def = match checks::find(&id) {
        Some(d) => d,
        None => {
            eprintln!("no check for {}", id);
            return 2;
        }
    };
    if selftest(false) != 0 {
        return 2;
    }
    let tier = tier_from(args);
    let base = seed_from_env();
    let jobs: u64 = arg_value(args, "--jobs").and_then(|s| s.parse().ok()).unwrap_or(16);
    let runs: u64 = arg_value(args, "--runs").and_then(|s| s.parse().ok()).unwrap_or(if tier == "thorough" { def.thorough_runs } else { def.quick_runs });
    let t0 = Instant::now();
    let agg = match run_workers(def, &tier, base, runs, jobs) {
        Ok(a) => a,
        Err(e) => {
            eprintln!("HARNESS ERROR: {}", e);
            return 2;
        }
    };
    let wall_runs = t0.elapsed().as_secs_f64();
    let known = load_known();
    let replay_dir = verif_dir().join("replays");
    let _ = std::fs::create_dir_all(&replay_dir);

    // group violations by signature, lowest run first
    let mut viols = agg.violations.clone();
    viols.sort_by_key(|r| r.run);
    let mut groups: Vec<(String, RunResult, u64)> = Vec::new();
    for r in viols {
        let s = sig(r.violation.as_ref().unwrap());
        if let Some(g) = groups.iter_mut().find(|g| g.0 == s) {
            g.2 += 1;
        } else {
            groups.push((s, r, 1));
        }
    }
    let mut exit = 0;
    let mut known_lines: Vec<String> = Vec::new();
    let mut new_violations = 0u64;
    let mut reported = Vec::new();
    for (gi, (_, r, count)) in groups.iter().enumerate() {
        let v = r.violation.clone().unwrap();
        if let Some(k) = matches_known(&v, &known) {
            let line = format!("KNOWN-FINDING: property={} {}", v.property, k.what);
            if !known_lines.contains(&line) {
                known_lines.push(line);
            }
            reported.push(json!({"known_finding": k.what, "runs": count, "class": v.class}));
            continue;
        }
        new_violations += count;
        exit = 1;
        if gi >= 6 {
            // many distinct signatures: report without minimising further ones
            if gi == 6 {
                println!("VIOLATION property={} replay=(none) note=more than 6 distinct violation signatures, only the first 6 are minimised and written", v.property);
            }
            continue;
        }
        let plan: Plan = match r.plan.clone().and_then(|p| serde_json::from_value(p).ok()) {
            Some(p) => p,
            None => {
                println!("VIOLATION property={} replay=(plan missing) class={} detail={}", v.property, v.class, v.detail);
                continue;
            }
        };
        let orig = checks::plan_size(&plan);
        let (minp, used) = minimise(&plan, &v, 300);
        // re-execute the minimised plan in a fresh process to get its own detail and hash
        let fin = exec_in_child(&minp, "final", Duration::from_secs(120));
        let (detail, hash, vfin) = match fin.as_ref().and_then(|f| f.violation.clone().or(f.foreign.clone()).map(|v| (v, f.hash))) {
            Some((vv, h)) => (vv.detail.clone(), h, vv),
            None => (v.detail.clone(), r.hash, v.clone()),
        };
        let rf = ReplayFile { property: v.property.clone(), class: v.class.clone(), detail, trigger: vfin.trigger.clone(), check: def.id.to_string(), seed: r.seed, run: r.run, expected_hash: hash, minimised: used > 0, original_size: orig, plan: minp.clone() };
        let path = replay_dir.join(format!("{}-{}-{}.json", v.property, base, r.run));
        let _ = std::fs::write(&path, serde_json::to_string_pretty(&rf).unwrap_or_default());
        println!("VIOLATION property={} replay={} class={} runs={} size={}->{} detail={}", v.property, path.display(), v.class, count, orig, checks::plan_size(&minp), rf.detail);
        reported.push(json!({"class": v.class, "runs": count, "replay": path.display().to_string()}));
    }
    for l in &known_lines {
        println!("{}", l);
    }
    // foreign violations: informative only
    let mut foreign_summary: BTreeMap<String, u64> = BTreeMap::new();
    for r in &agg.foreign {
        let v = r.foreign.as_ref().unwrap();
        *foreign_summary.entry(format!("{}:{}", v.property, v.class)).or_insert(0) += 1;
    }
    if let Some(h) = agg.foreign.iter().find(|r| r.foreign.as_ref().map_or(false, |v| v.property == "HARNESS")) {
        let v = h.foreign.as_ref().unwrap();
        eprintln!("HARNESS ERROR: run {} (seed {}): {} {}", h.run, h.seed, v.class, v.detail);
        return 2;
    }
    if !foreign_summary.is_empty() {
        eprintln!("note: runs that stopped at a violation of another property (not part of this verdict): {:?}", foreign_summary);
    }
    let wall = t0.elapsed().as_secs_f64();
    let faults: BTreeMap<&String, &u64> = agg.counters.iter().filter(|(k, _)| k.starts_with("fault.")).collect();
    let probes: BTreeMap<&String, &u64> = agg.counters.iter().filter(|(k, _)| k.starts_with("probe.")).collect();
    let ops: BTreeMap<&String, &u64> = agg.counters.iter().filter(|(k, _)| !k.starts_with("probe.") && !k.starts_with("fault.")).collect();
    // fault enumeration (C09): the unit of evaluation is one interrupted session, not one plan
    let (evaluations, distinct) = if def.level == "fault_enumeration" {
        (agg.counters.get("interrupted_sessions").copied().unwrap_or(agg.results), agg.counters.get("distinct_interrupted_sessions").copied().unwrap_or(agg.nontrivial_hashes.len() as u64))
    } else {
        (agg.results, agg.nontrivial_hashes.len() as u64)
    };
    let evidence = json!({
        "property_id": def.id,
        "tier": tier,
        "seed": base,
        "level": def.level,
        "coverage": {
            "evaluations": evaluations,
            "distinct_nontrivial": distinct,
            "plans": agg.results,
            "exhaustive": false,
            "rule": def.rule,
            "samples": agg.samples,
            "simulated_runs": agg.results,
            "runs_per_hour": (agg.results as f64 / wall_runs.max(0.001) * 3600.0) as u64,
            "steps_total": agg.steps,
            "sim_time_ns_total": agg.sim_ns,
            "distinct_interleavings": {"measure": "distinct coarse shape hash (sequence of operation/event kinds incl. start position or cycle structure)", "count": agg.shapes.len()},
            "faults_fired": faults,
            "probes": probes,
            "operations": ops,
            "components_real": def.real,
            "components_stubbed": def.stubbed,
            "foreign_violations_seen": foreign_summary,
            "reported": reported,
            "jobs": jobs,
        },
        "assumptions": def.assumptions,
        "wall_s": wall,
        "violations": new_violations,
    });
    let ev_dir = verif_dir().join("evidence");
    let _ = std::fs::create_dir_all(&ev_dir);
    let ev_path = arg_value(args, "--evidence").map(PathBuf::from).unwrap_or_else(|| ev_dir.join(format!("{}.json", def.id)));
    if std::fs::write(&ev_path, serde_json::to_string_pretty(&evidence).unwrap_or_default()).is_err() {
        eprintln!("HARNESS ERROR: cannot write evidence {}", ev_path.display());
        return 2;
    }
    eprintln!("{} {}: {} runs, {} distinct non-trivial, {} new violating runs, {} known-finding lines, {:.1}s", def.id, tier, agg.results, agg.nontrivial_hashes.len(), new_violations, known_lines.len(), wall);
    if exit == 0 {
        println!("OK property={} runs={} tier={}", def.id, agg.results, tier);
    }
    exit
}

fn replay(args: &[String]) -> i32 {
    let path = match args.first() {
        Some(p) => p,
        None => return 2,
    };
    let text = match std::fs::read_to_string(path) {
        Ok(t) => t,
        Err(e) => {
            eprintln!("cannot read {}: {}", path, e);
            return 2;
        }
    };
    let rf: ReplayFile = match serde_json::from_str(&text) {
        Ok(r) => r,
        Err(e) => {
            eprintln!("bad replay file: {}", e);
            return 2;
        }
    };
    let res = match exec_in_child(&rf.plan, "replay", Duration::from_secs(300)) {
        Some(r) => r,
        None => {
            eprintln!("HARNESS ERROR: replay child produced no result");
            return 2;
        }
    };
    match res.violation.or(res.foreign) {
        Some(v) if v.property == rf.property && v.class == rf.class => {
            let same_hash = res.hash == rf.expected_hash;
            println!("VIOLATION property={} replay={} class={} detail={} (event-log hash {} expected)", v.property, path, v.class, v.detail, if same_hash { "equals" } else { "DIFFERS from" });
            1
        }
        Some(v) => {
            println!("DIFFERENT violation on replay: property={} class={} detail={}", v.property, v.class, v.detail);
            1
        }
        None => {
            println!("NOT REPRODUCED: the plan in {} ran clean on the current tree", path);
            0
        }
    }
}

/// Run the same seeds twice with different worker counts and compare per-run event-log hashes.
fn determinism(args: &[String]) -> i32 {
    let id = match args.first() {
        Some(i) => i.clone(),
        None => return 2,
    };
    let def = match checks::find(&id) {
        Some(d) => d,
        None => return 2,
    };
    let runs: u64 = arg_value(args, "--runs").and_then(|s| s.parse().ok()).unwrap_or(2000);
    let base = seed_from_env();
    let a = match run_workers(def, "quick", base, runs, 16) {
        Ok(a) => a,
        Err(e) => {
            eprintln!("HARNESS ERROR: {}", e);
            return 2;
        }
    };
    let b = match run_workers(def, "quick", base, runs, 3) {
        Ok(a) => a,
        Err(e) => {
            eprintln!("HARNESS ERROR: {}", e);
            return 2;
        }
    };
    let mut diff = 0;
    for (run, h) in &a.run_hashes {
        if b.run_hashes.get(run) != Some(h) {
            diff += 1;
            if diff <= 5 {
                eprintln!("run {} differs: {:x} vs {:?}", run, h, b.run_hashes.get(run));
            }
        }
    }
    println!("determinism {}: {} runs x 2 (16 jobs vs 3 jobs), {} differing", id, runs, diff);
    if diff == 0 {
        0
    } else {
        2
    }
}

/// Offline helper: random sparse endgames with a reference-proven forced mate in exactly 1..3.
fn gen_mates(args: &[String]) -> i32 {
    use crate::refchess::{search::mate_in, sq, Pos, EMPTY};
    let want: usize = args.first().and_then(|s| s.parse().ok()).unwrap_or(100);
    let mut rng = rng::Rng::new(args.get(1).and_then(|s| s.parse().ok()).unwrap_or(7));
    let mut found = [0usize; 4];
    let mut out = 0;
    let mut tries = 0u64;
    while out < want && tries < 5_000_000 {
        tries += 1;
        let mut board = [EMPTY; 64];
        let mut place = |b: &mut [u8; 64], p: u8, rng: &mut rng::Rng, pawn: bool| loop {
            let s = if pawn { sq(rng.below(8) as i32, 1 + rng.below(6) as i32) } else { rng.below(64) as u8 };
            if b[s as usize] == EMPTY {
                b[s as usize] = p;
                break;
            }
        };
        place(&mut board, b'K', &mut rng, false);
        place(&mut board, b'k', &mut rng, false);
        let strong: &[u8] = match rng.below(7) {
            0 => b"Q",
            1 => b"R",
            2 => b"RR",
            3 => b"QR",
            4 => b"QB",
            5 => b"RNP",
            _ => b"QP",
        };
        for &p in strong {
            place(&mut board, p, &mut rng, p == b'P');
        }
        for &p in [&b""[..], b"p", b"n", b"pb", b"r"][rng.below(5) as usize] {
            place(&mut board, p, &mut rng, p == b'p');
        }
        let p = Pos { board, white_to_move: true, castle: [false; 4], ep: None, half: rng.below(20) as u32, full: 1 + rng.below(80) as u32 };
        if !p.is_sane() || p.in_check(true) && !p.has_legal_move() {
            continue;
        }
        let target = 1 + (tries % 3) as u32;
        if found[target as usize] * 3 > want + 3 {
            continue;
        }
        let mut n_found = 0;
        for n in 1..=target {
            if !mate_in(&p, n).is_empty() {
                n_found = n;
                break;
            }
        }
        if n_found == target {
            let q = if rng.chance(1, 2) { p.flip() } else { p };
            println!("    (\"{}\", {}),", q.to_fen(), target);
            found[target as usize] += 1;
            out += 1;
        }
    }
    eprintln!("found {:?} in {} tries", found, tries);
    0
}

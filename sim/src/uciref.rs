//! Reference parser for GUI->engine UCI command lines (written from the UCI text and the
//! behaviours pinned by the existing parser tests), a reference grammar for engine->GUI lines,
//! and a seeded generator of well-formed and mutated lines.

use std::time::Duration;

use inkayaku_core::fen::Fen;
use inkayaku_uci::{Go, UciCommand, UciMove};
use std::str::FromStr;

use crate::refchess::{Mv, Pos};
use crate::rng::Rng;

#[derive(Clone, Debug, PartialEq)]
pub struct RefGo {
    pub searchmoves: Vec<String>,
    pub ponder: bool,
    pub wtime: Option<i64>,
    pub btime: Option<i64>,
    pub winc: Option<i64>,
    pub binc: Option<i64>,
    pub movestogo: Option<u64>,
    pub depth: Option<u64>,
    pub nodes: Option<u64>,
    pub mate: Option<u64>,
    pub movetime: Option<i64>,
    pub infinite: bool,
}

impl RefGo {
    pub fn empty() -> Self {
        RefGo { searchmoves: vec![], ponder: false, wtime: None, btime: None, winc: None, binc: None, movestogo: None, depth: None, nodes: None, mate: None, movetime: None, infinite: false }
    }
}

#[derive(Clone, Debug, PartialEq)]
pub enum RefCmd {
    Uci,
    Debug(bool),
    IsReady,
    SetOption { name: String, value: Option<String> },
    RegisterLater,
    Register { name: String, code: String },
    UciNewGame,
    Position { fen: Option<String>, moves: Vec<String> },
    Go(RefGo),
    Stop,
    PonderHit,
    Quit,
}

#[derive(Clone, Debug, PartialEq)]
pub enum Expect {
    /// well-formed: must parse to exactly this
    Exactly(RefCmd),
    /// must be some parse error (never a command)
    MustErr,
    /// the property does not say; only: no panic, and if Ok then a command named by the first word
    Unspecified,
}

fn canonical_u64(t: &str) -> Option<u64> {
    if t.is_empty() || !t.bytes().all(|b| b.is_ascii_digit()) || (t.len() > 1 && t.starts_with('0')) {
        return None;
    }
    t.parse().ok()
}

fn is_move_token(t: &str) -> bool {
    // UCI move text as the engine's UciMove accepts it: file rank file rank [piece letter]
    let b = t.as_bytes();
    if !(b.len() == 4 || b.len() == 5) {
        return false;
    }
    let sq_ok = |f: u8, r: u8| (b'a'..=b'h').contains(&f) && (b'1'..=b'8').contains(&r);
    sq_ok(b[0], b[1]) && sq_ok(b[2], b[3]) && (b.len() == 4 || b"qrbnkpQRBNKP".contains(&b[4]))
}

const GO_TOKENS: [&str; 12] = ["searchmoves", "ponder", "wtime", "btime", "winc", "binc", "movestogo", "depth", "nodes", "mate", "movetime", "infinite"];

/// What must the parser make of this line?
pub fn expect(line: &str) -> Expect {
    use Expect::*;
    // separators are blanks only; anything else inside tokens is part of the token
    let trimmed = line.trim();
    let toks: Vec<&str> = trimmed.split(' ').filter(|s| !s.is_empty()).collect();
    if toks.is_empty() {
        return MustErr;
    }
    if line.chars().any(|c| c.is_whitespace() && c != ' ' && c != '\n' && c != '\r') {
        // tabs and exotic white space: neither asserted nor excluded
        return Unspecified;
    }
    if trimmed.contains('\n') || trimmed.contains('\r') {
        return Unspecified;
    }
    match toks[0] {
        "uci" => Exactly(RefCmd::Uci),
        "isready" => Exactly(RefCmd::IsReady),
        "ucinewgame" => Exactly(RefCmd::UciNewGame),
        "stop" => Exactly(RefCmd::Stop),
        "ponderhit" => Exactly(RefCmd::PonderHit),
        "quit" => Exactly(RefCmd::Quit),
        "debug" => match toks.get(1) {
            Some(&"on") => Exactly(RefCmd::Debug(true)),
            Some(&"off") => Exactly(RefCmd::Debug(false)),
            _ => MustErr,
        },
        "register" => match toks.get(1) {
            None => MustErr,
            Some(&"later") => Exactly(RefCmd::RegisterLater),
            Some(&"name") => {
                let rest = &toks[2..];
                match rest.iter().position(|t| *t == "code") {
                    Some(i) if i > 0 && i + 1 < rest.len() => Exactly(RefCmd::Register { name: rest[..i].join(" "), code: rest[i + 1..].join(" ") }),
                    _ => {
                        if rest.is_empty() || !rest.contains(&"code") || rest.last() == Some(&"code") {
                            MustErr
                        } else {
                            Unspecified
                        }
                    }
                }
            }
            Some(_) => MustErr,
        },
        "setoption" => match toks.get(1) {
            Some(&"name") => {
                let rest = &toks[2..];
                if rest.is_empty() {
                    return MustErr;
                }
                match rest.iter().position(|t| *t == "value") {
                    None => Exactly(RefCmd::SetOption { name: rest.join(" "), value: None }),
                    Some(0) => Unspecified,
                    Some(i) => {
                        if i + 1 < rest.len() {
                            Exactly(RefCmd::SetOption { name: rest[..i].join(" "), value: Some(rest[i + 1..].join(" ")) })
                        } else {
                            MustErr
                        }
                    }
                }
            }
            _ => MustErr,
        },
        "position" => {
            let (fen, rest): (Option<String>, &[&str]) = match toks.get(1) {
                Some(&"startpos") => (None, &toks[2..]),
                Some(&"fen") => {
                    let rest = &toks[2..];
                    let end = rest.iter().position(|t| *t == "moves").unwrap_or(rest.len());
                    if end == 0 {
                        return MustErr;
                    }
                    let text = rest[..end].join(" ");
                    match Pos::from_fen(&text) {
                        Ok(p) => {
                            if p.full == 0 {
                                return Unspecified;
                            }
                        }
                        Err(e) if e == "clock-range" => return Unspecified,
                        Err(_) => return MustErr,
                    }
                    (Some(text), &rest[end..])
                }
                _ => return MustErr,
            };
            if rest.is_empty() {
                return Exactly(RefCmd::Position { fen, moves: vec![] });
            }
            if rest[0] != "moves" {
                return MustErr;
            }
            let mut moves = Vec::new();
            for t in &rest[1..] {
                if !is_move_token(t) {
                    return MustErr;
                }
                if t.as_bytes().len() == 5 && t.as_bytes()[4].is_ascii_uppercase() {
                    return Unspecified;
                }
                moves.push(t.to_string());
            }
            Exactly(RefCmd::Position { fen, moves })
        }
        "go" => {
            let mut go = RefGo::empty();
            let mut seen: Vec<&str> = Vec::new();
            let mut i = 1;
            let mut unspecified = false;
            while i < toks.len() {
                let t = toks[i];
                if !GO_TOKENS.contains(&t) {
                    return MustErr;
                }
                if seen.contains(&t) {
                    return MustErr;
                }
                seen.push(t);
                i += 1;
                match t {
                    "ponder" => go.ponder = true,
                    "infinite" => go.infinite = true,
                    "searchmoves" => {
                        while i < toks.len() && !GO_TOKENS.contains(&toks[i]) {
                            if !is_move_token(toks[i]) {
                                return MustErr;
                            }
                            if toks[i].len() == 5 && toks[i].as_bytes()[4].is_ascii_uppercase() {
                                unspecified = true;
                            }
                            go.searchmoves.push(toks[i].to_string());
                            i += 1;
                        }
                    }
                    _ => {
                        let v = match toks.get(i) {
                            Some(v) => *v,
                            None => return MustErr,
                        };
                        i += 1;
                        let timeish = matches!(t, "wtime" | "btime" | "winc" | "binc" | "movetime");
                        let parsed: Option<i64> = if let Some(u) = canonical_u64(v) {
                            if u > i64::MAX as u64 {
                                unspecified = true;
                                Some(0)
                            } else {
                                Some(u as i64)
                            }
                        } else if timeish && v.starts_with('-') && canonical_u64(&v[1..]).is_some() {
                            // negative clock values are clamped to 0 (pinned by the existing tests)
                            match v.parse::<i64>() {
                                Ok(_) => Some(0),
                                Err(_) => {
                                    unspecified = true;
                                    Some(0)
                                }
                            }
                        } else if v.bytes().all(|b| b.is_ascii_digit() || b == b'+' || b == b'-') && v.bytes().any(|b| b.is_ascii_digit()) && !v[1..].contains(['+', '-']) {
                            // "+5", "007", "-0", u64 for a count given with sign: syntax the text does not settle
                            unspecified = true;
                            Some(0)
                        } else {
                            return MustErr;
                        };
                        let p = parsed.unwrap_or(0);
                        match t {
                            "wtime" => go.wtime = Some(p),
                            "btime" => go.btime = Some(p),
                            "winc" => go.winc = Some(p),
                            "binc" => go.binc = Some(p),
                            "movetime" => go.movetime = Some(p),
                            "movestogo" => go.movestogo = Some(p as u64),
                            "depth" => go.depth = Some(p as u64),
                            "nodes" => go.nodes = Some(p as u64),
                            "mate" => go.mate = Some(p as u64),
                            _ => {}
                        }
                    }
                }
            }
            if unspecified {
                Unspecified
            } else {
                Exactly(RefCmd::Go(go))
            }
        }
        _ => MustErr,
    }
}

/// Build the expected UciMove value without going through the parser under test.
fn mv_to_uci(m: &str) -> Option<UciMove> {
    use inkayaku_core::constants::{Piece, Square};
    let b = m.as_bytes();
    if !is_move_token(m) {
        return None;
    }
    let sq = |f: u8, r: u8| Square::from_indices((f - b'a') as usize, (8 - (r - b'0')) as usize);
    let from = sq(b[0], b[1])?;
    let to = sq(b[2], b[3])?;
    if b.len() == 5 {
        let p = match b[4].to_ascii_lowercase() {
            b'q' => Piece::QUEEN,
            b'r' => Piece::ROOK,
            b'b' => Piece::BISHOP,
            b'n' => Piece::KNIGHT,
            b'k' => Piece::KING,
            b'p' => Piece::PAWN,
            _ => return None,
        };
        Some(UciMove::new_with_promotion(from, to, p))
    } else {
        Some(UciMove::new(from, to))
    }
}

/// Convert a reference command into the value the real parser must return.
pub fn to_uci_command(c: &RefCmd) -> Option<UciCommand> {
    Some(match c {
        RefCmd::Uci => UciCommand::Uci,
        RefCmd::Debug(b) => UciCommand::SetDebug { debug: *b },
        RefCmd::IsReady => UciCommand::IsReady,
        RefCmd::SetOption { name, value: None } => UciCommand::SetOption { name: name.clone() },
        RefCmd::SetOption { name, value: Some(v) } => UciCommand::SetOptionValue { name: name.clone(), value: v.clone() },
        RefCmd::RegisterLater => UciCommand::RegisterLater,
        RefCmd::Register { name, code } => UciCommand::Register { name: name.clone(), code: code.clone() },
        RefCmd::UciNewGame => UciCommand::UciNewGame,
        RefCmd::Position { fen, moves } => {
            let f = match fen {
                None => Fen::default(),
                Some(t) => Fen::from_str(t).ok()?,
            };
            let mut ms = Vec::new();
            for m in moves {
                ms.push(mv_to_uci(m)?);
            }
            UciCommand::PositionFrom { fen: f, moves: ms }
        }
        RefCmd::Go(g) => {
            let d = |v: &Option<i64>| v.map(|x| Duration::from_millis(x.max(0) as u64));
            let mut sm = Vec::new();
            for m in &g.searchmoves {
                sm.push(mv_to_uci(m)?);
            }
            UciCommand::Go { go: Go::new(sm, g.ponder, d(&g.wtime), d(&g.btime), d(&g.winc), d(&g.binc), g.movestogo, g.depth, g.nodes, g.mate, d(&g.movetime), g.infinite) }
        }
        RefCmd::Stop => UciCommand::Stop,
        RefCmd::PonderHit => UciCommand::PonderHit,
        RefCmd::Quit => UciCommand::Quit,
    })
}

pub fn first_word_kind(line: &str) -> &'static str {
    match line.trim().split(' ').find(|s| !s.is_empty()).unwrap_or("") {
        "uci" => "Uci",
        "isready" => "IsReady",
        "ucinewgame" => "UciNewGame",
        "stop" => "Stop",
        "ponderhit" => "PonderHit",
        "quit" => "Quit",
        "debug" => "SetDebug",
        "register" => "Register",
        "setoption" => "SetOption",
        "position" => "PositionFrom",
        "go" => "Go",
        _ => "",
    }
}

pub fn command_kind(c: &UciCommand) -> &'static str {
    match c {
        UciCommand::Uci => "Uci",
        UciCommand::SetDebug { .. } => "SetDebug",
        UciCommand::IsReady => "IsReady",
        UciCommand::SetOption { .. } | UciCommand::SetOptionValue { .. } => "SetOption",
        UciCommand::RegisterLater | UciCommand::Register { .. } => "Register",
        UciCommand::UciNewGame => "UciNewGame",
        UciCommand::PositionFrom { .. } => "PositionFrom",
        UciCommand::Go { .. } => "Go",
        UciCommand::Stop => "Stop",
        UciCommand::PonderHit => "PonderHit",
        UciCommand::Quit => "Quit",
    }
}

// ------------------------------------------------------------------ rendering with random spacing

pub fn render_go(g: &RefGo, rng: &mut Rng) -> String {
    let mut parts: Vec<String> = Vec::new();
    if !g.searchmoves.is_empty() {
        parts.push(format!("searchmoves {}", g.searchmoves.join(" ")));
    }
    if g.ponder {
        parts.push("ponder".into());
    }
    for (k, v) in [("wtime", g.wtime), ("btime", g.btime), ("winc", g.winc), ("binc", g.binc), ("movetime", g.movetime)] {
        if let Some(v) = v {
            parts.push(format!("{} {}", k, v));
        }
    }
    for (k, v) in [("movestogo", g.movestogo), ("depth", g.depth), ("nodes", g.nodes), ("mate", g.mate)] {
        if let Some(v) = v {
            parts.push(format!("{} {}", k, v));
        }
    }
    if g.infinite {
        parts.push("infinite".into());
    }
    rng.shuffle(&mut parts);
    let mut s = String::from("go");
    for p in parts {
        s.push(' ');
        s.push_str(&p);
    }
    s
}

/// Random blanks: leading/trailing/multiple, optional CR/LF ending.
pub fn space_out(line: &str, rng: &mut Rng) -> String {
    let mut s = String::new();
    for _ in 0..rng.below(3) {
        s.push(' ');
    }
    for (i, t) in line.split(' ').filter(|t| !t.is_empty()).enumerate() {
        if i > 0 {
            for _ in 0..(1 + if rng.chance(1, 5) { rng.below(3) } else { 0 }) {
                s.push(' ');
            }
        }
        s.push_str(t);
    }
    for _ in 0..rng.below(3) {
        s.push(' ');
    }
    match rng.below(4) {
        0 => s.push('\n'),
        1 => s.push_str("\r\n"),
        _ => {}
    }
    s
}

pub fn random_go(rng: &mut Rng, legal: &[Mv]) -> RefGo {
    let mut g = RefGo::empty();
    let mut t = |rng: &mut Rng| -> i64 { *rng.pick(&[0i64, 1, 2, 10, 100, 999, 1000, 5000, 60000, 600000, 3600000]) };
    if rng.chance(1, 4) && !legal.is_empty() {
        let n = 1 + rng.usize_below(legal.len().min(4));
        for _ in 0..n {
            let m = rng.pick(legal).uci();
            if !g.searchmoves.contains(&m) {
                g.searchmoves.push(m);
            }
        }
    }
    g.ponder = rng.chance(1, 8);
    if rng.chance(1, 3) {
        g.wtime = Some(t(rng));
    }
    if rng.chance(1, 3) {
        g.btime = Some(t(rng));
    }
    if rng.chance(1, 4) {
        g.winc = Some(t(rng));
    }
    if rng.chance(1, 4) {
        g.binc = Some(t(rng));
    }
    if rng.chance(1, 6) {
        g.movestogo = Some(rng.below(60));
    }
    if rng.chance(1, 2) {
        g.depth = Some(rng.below(12));
    }
    if rng.chance(1, 8) {
        g.nodes = Some(rng.below(1_000_000));
    }
    if rng.chance(1, 8) {
        g.mate = Some(rng.below(9));
    }
    if rng.chance(1, 5) {
        g.movetime = Some(t(rng));
    }
    g.infinite = rng.chance(1, 8);
    g
}

/// A well-formed command line drawn from the grammar (structured), as text with random spacing.
pub fn random_wellformed(rng: &mut Rng, fens: &[String], legal: &[Mv]) -> String {
    let line = match rng.below(14) {
        0 => "uci".to_string(),
        1 => format!("debug {}", if rng.chance(1, 2) { "on" } else { "off" }),
        2 => "isready".to_string(),
        3 => {
            let name = rng.pick(&["Hash", "Clear Hash", "Nalimov Path", "UCI_AnalyseMode", "Style"]).to_string();
            if rng.chance(1, 2) {
                format!("setoption name {}", name)
            } else {
                format!("setoption name {} value {}", name, rng.pick(&["32", "true", "c:\\tb d:\\tb", "Risky", "a b c"]))
            }
        }
        4 => "register later".to_string(),
        5 => format!("register name {} code {}", rng.pick(&["Stefan MK", "A", "x y z"]), rng.pick(&["4359874324", "1 2 3", "abc"])),
        6 => "ucinewgame".to_string(),
        7 | 8 => {
            let mut s = if rng.chance(1, 2) || fens.is_empty() { "position startpos".to_string() } else { format!("position fen {}", rng.pick(fens)) };
            if rng.chance(2, 3) {
                s.push_str(" moves");
                for _ in 0..rng.below(12) {
                    let m = Mv { from: rng.below(64) as u8, to: rng.below(64) as u8, promo: if rng.chance(1, 8) { Some(*rng.pick(b"qrbnk")) } else { None } };
                    s.push(' ');
                    s.push_str(&m.uci());
                }
            }
            s
        }
        9 | 10 => {
            let g = random_go(rng, legal);
            render_go(&g, rng)
        }
        11 => "stop".to_string(),
        12 => "ponderhit".to_string(),
        _ => "quit".to_string(),
    };
    space_out(&line, rng)
}

/// Token-level and byte-level mutations of a line (corruption on the GUI->engine channel).
pub fn mutate_line(line: &str, rng: &mut Rng) -> String {
    if rng.chance(1, 12) {
        // a multi-byte character dropped anywhere into the line (inside a FEN rank, a number, a keyword)
        let chars: Vec<char> = line.chars().collect();
        let k = rng.usize_below(chars.len() + 1);
        let c = *rng.pick(&['é', 'ь', '♙', '漢', '\u{a0}', '٣', '🙂']);
        let mut out: String = chars[..k].iter().collect();
        out.push(c);
        if rng.chance(1, 3) {
            out.push(c);
        }
        out.extend(chars[k..].iter());
        return out;
    }
    let toks: Vec<&str> = line.trim().split(' ').filter(|t| !t.is_empty()).collect();
    match rng.below(12) {
        0 => {
            // byte flip
            let mut b = line.as_bytes().to_vec();
            if !b.is_empty() {
                let i = rng.usize_below(b.len());
                b[i] ^= 1 << rng.below(7);
            }
            String::from_utf8_lossy(&b).to_string()
        }
        1 if !toks.is_empty() => {
            let mut t = toks.clone();
            t.remove(rng.usize_below(t.len()));
            t.join(" ")
        }
        2 if !toks.is_empty() => {
            let mut t = toks.clone();
            let i = rng.usize_below(t.len());
            t.insert(i, toks[i]);
            t.join(" ")
        }
        3 if toks.len() >= 2 => {
            let mut t = toks.clone();
            let i = rng.usize_below(t.len() - 1);
            t.swap(i, i + 1);
            t.join(" ")
        }
        4 => {
            let cut = rng.usize_below(line.len() + 1);
            let mut c = cut;
            while !line.is_char_boundary(c) {
                c -= 1;
            }
            line[..c].to_string()
        }
        5 => rng.pick(&["", " ", "xyz", "joho debug on", "UCI", "Go depth 3", "position", "go depth", "\u{feff}uci", "0000", "bestmove e2e4", "isreadyy", "st op", "go  depth\t3", "quit\0"]).to_string(),
        6 if !toks.is_empty() => {
            let mut t: Vec<String> = toks.iter().map(|s| s.to_string()).collect();
            let i = rng.usize_below(t.len());
            t[i] = rng.pick(&["99999999999999999999999", "-1", "18446744073709551616", "9223372036854775808", "1e9", "0x10", "+7", "007", "٣"]).to_string();
            t.join(" ")
        }
        7 if !toks.is_empty() => {
            let mut t: Vec<String> = toks.iter().map(|s| s.to_string()).collect();
            let i = rng.usize_below(t.len());
            t[i] = rng.pick(&["A1a2", "1234", "a1a", "a1a2x", "i9i9", "e2e4qq", "é2e4", "`1a2", "a`a2", "a0a1", "a1a9", "a1`2", "e7e8K", "@1a2", "a1@2", "h8h9", " ", "a1a2a"]).to_string();
            t.join(" ")
        }
        8 if rng.chance(1, 2) => line.to_uppercase(),
        8 => {
            // a character far outside ASCII whose low byte equals the ASCII character it replaces
            // (U+0165 for 'e', U+0132 for '2', ...): must never be read as that square
            let mut t: Vec<String> = toks.iter().map(|s| s.to_string()).collect();
            let cands: Vec<usize> = (0..t.len()).filter(|&i| is_move_token(&t[i])).collect();
            if cands.is_empty() {
                t.push("\u{165}2e4".to_string());
            } else {
                let i = *rng.pick(&cands);
                let chars: Vec<char> = t[i].chars().collect();
                let k = rng.usize_below(chars.len().min(4));
                let wide = char::from_u32(chars[k] as u32 + 0x100 * (1 + rng.below(200) as u32)).unwrap_or('\u{165}');
                t[i] = chars.iter().enumerate().map(|(j, c)| if j == k { wide } else { *c }).collect();
            }
            t.join(" ")
        }
        9 => format!("{} é ß 漢", line.trim()),
        10 if !toks.is_empty() => {
            // duplicate a go parameter with its value
            let mut t: Vec<String> = toks.iter().map(|s| s.to_string()).collect();
            if let Some(i) = t.iter().position(|x| GO_TOKENS.contains(&x.as_str())) {
                let k = t[i].clone();
                t.push(k);
                t.push("1".into());
            }
            t.join(" ")
        }
        _ => {
            let n = rng.below(40) as usize;
            let b: Vec<u8> = (0..n).map(|_| if rng.chance(2, 3) { *rng.pick(b"abcdefgh12345678 gopsitnmv") } else { rng.below(256) as u8 }).collect();
            String::from_utf8_lossy(&b).to_string()
        }
    }
}

// ------------------------------------------------------------------ engine -> GUI grammar

#[derive(Clone, Debug, Default, PartialEq)]
pub struct InfoLine {
    pub depth: Option<u64>,
    pub seldepth: Option<u64>,
    pub time: Option<u64>,
    pub nodes: Option<u64>,
    pub pv: Option<Vec<String>>,
    pub score_cp: Option<i64>,
    pub score_mate: Option<i64>,
    pub hashfull: Option<u64>,
    pub nps: Option<u64>,
    pub string: Option<String>,
}

#[derive(Clone, Debug, PartialEq)]
pub enum OutLine {
    IdName(String),
    IdAuthor(String),
    UciOk,
    ReadyOk,
    BestMove { best: String, ponder: Option<String> },
    Registration(String),
    CopyProtection(String),
    Option_(String),
    Info(InfoLine),
}

fn out_move(t: &str) -> bool {
    t == "0000" || (is_move_token(t) && (t.len() == 4 || b"qrbn".contains(&t.as_bytes()[4])))
}

/// Reference grammar of engine->GUI messages. Err = not a valid UCI message.
pub fn parse_out(line: &str) -> Result<OutLine, String> {
    if line.contains('\n') || line.contains('\r') {
        return Err("embedded line break".into());
    }
    let toks: Vec<&str> = line.split(' ').collect();
    if toks.iter().any(|t| t.is_empty()) {
        return Err("empty token (double/leading/trailing blank)".into());
    }
    let int = |t: &str| -> Result<u64, String> { canonical_u64(t).ok_or_else(|| format!("bad integer {:?}", t)) };
    let sint = |t: &str| -> Result<i64, String> {
        let (neg, body) = match t.strip_prefix('-') {
            Some(b) => (true, b),
            None => (false, t),
        };
        let v = canonical_u64(body).ok_or_else(|| format!("bad integer {:?}", t))?;
        if v > i64::MAX as u64 {
            return Err("integer out of range".into());
        }
        Ok(if neg { -(v as i64) } else { v as i64 })
    };
    match toks[0] {
        "uciok" if toks.len() == 1 => Ok(OutLine::UciOk),
        "readyok" if toks.len() == 1 => Ok(OutLine::ReadyOk),
        "id" => match toks.get(1) {
            Some(&"name") if toks.len() > 2 => Ok(OutLine::IdName(toks[2..].join(" "))),
            Some(&"author") if toks.len() > 2 => Ok(OutLine::IdAuthor(toks[2..].join(" "))),
            _ => Err("bad id line".into()),
        },
        "registration" | "copyprotection" => match toks.get(1) {
            Some(&v) if ["checking", "ok", "error"].contains(&v) && toks.len() == 2 => Ok(if toks[0] == "registration" { OutLine::Registration(v.into()) } else { OutLine::CopyProtection(v.into()) }),
            _ => Err("bad protection line".into()),
        },
        "option" => {
            if toks.get(1) == Some(&"name") && toks.contains(&"type") {
                Ok(OutLine::Option_(line.to_string()))
            } else {
                Err("bad option line".into())
            }
        }
        "bestmove" => {
            let best = toks.get(1).ok_or("bestmove without move")?;
            if !out_move(best) {
                return Err(format!("bad bestmove {:?}", best));
            }
            match toks.len() {
                2 => Ok(OutLine::BestMove { best: best.to_string(), ponder: None }),
                4 if toks[2] == "ponder" && out_move(toks[3]) && toks[3] != "0000" => Ok(OutLine::BestMove { best: best.to_string(), ponder: Some(toks[3].to_string()) }),
                _ => Err("bad bestmove tail".into()),
            }
        }
        "info" => {
            let mut info = InfoLine::default();
            let mut i = 1;
            const KEYS: [&str; 17] = ["depth", "seldepth", "time", "nodes", "pv", "multipv", "score", "currmove", "currmovenumber", "hashfull", "nps", "tbhits", "sbhits", "cpuload", "string", "refutation", "currline"];
            if toks.len() == 1 {
                return Err("empty info".into());
            }
            while i < toks.len() {
                let k = toks[i];
                i += 1;
                match k {
                    "depth" | "seldepth" | "time" | "nodes" | "multipv" | "currmovenumber" | "hashfull" | "nps" | "tbhits" | "sbhits" | "cpuload" => {
                        let v = int(toks.get(i).ok_or("missing value")?)?;
                        i += 1;
                        match k {
                            "depth" => info.depth = Some(v),
                            "seldepth" => info.seldepth = Some(v),
                            "time" => info.time = Some(v),
                            "nodes" => info.nodes = Some(v),
                            "hashfull" => {
                                if v > 1000 {
                                    return Err(format!("hashfull {} > 1000", v));
                                }
                                info.hashfull = Some(v)
                            }
                            "nps" => info.nps = Some(v),
                            _ => {}
                        }
                    }
                    "pv" | "refutation" | "currline" => {
                        let mut ms = Vec::new();
                        if k == "currline" && toks.get(i).map_or(false, |t| canonical_u64(t).is_some()) {
                            i += 1;
                        }
                        while i < toks.len() && !KEYS.contains(&toks[i]) {
                            if !out_move(toks[i]) || toks[i] == "0000" {
                                return Err(format!("bad move {:?} in {}", toks[i], k));
                            }
                            ms.push(toks[i].to_string());
                            i += 1;
                        }
                        if ms.is_empty() {
                            return Err(format!("{} without moves", k));
                        }
                        if k == "pv" {
                            info.pv = Some(ms);
                        }
                    }
                    "currmove" => {
                        let m = toks.get(i).ok_or("missing move")?;
                        if !out_move(m) {
                            return Err("bad currmove".into());
                        }
                        i += 1;
                    }
                    "score" => {
                        let kind = toks.get(i).ok_or("score without kind")?;
                        let v = sint(toks.get(i + 1).ok_or("score without value")?)?;
                        i += 2;
                        match *kind {
                            "cp" => info.score_cp = Some(v),
                            "mate" => info.score_mate = Some(v),
                            _ => return Err(format!("bad score kind {:?}", kind)),
                        }
                        if let Some(b) = toks.get(i) {
                            if *b == "lowerbound" || *b == "upperbound" {
                                i += 1;
                            }
                        }
                    }
                    "string" => {
                        info.string = Some(toks[i..].join(" "));
                        i = toks.len();
                    }
                    other => return Err(format!("unknown info key {:?}", other)),
                }
            }
            Ok(OutLine::Info(info))
        }
        other => Err(format!("unknown message {:?}", other)),
    }
}

//! Lock-step scheduler for the three real threads of an engine session:
//!   S = scheduler + GUI model + oracle (the worker's main thread)
//!   M = the thread running `ConsoleUciRx::start` (reads lines, parses, calls `Engine::accept`)
//!   T = the search thread spawned by `Engine::new`
//! Exactly one of them is ever released. Real threads parked and released one at a time replay
//! exactly; what is never real is the choice of who runs.

use std::cell::Cell;
use std::sync::atomic::{AtomicU64, Ordering};
use std::sync::{Arc, Condvar, Mutex, MutexGuard};
use std::time::{Duration, SystemTime};

use inkayaku_board::Bitboard;
use inkayaku_engine_core::verif::SimHooks;

use crate::boardsim::render;

#[derive(Clone, Copy, PartialEq, Eq, Debug)]
pub enum Role {
    S,
    M,
    T,
}

thread_local! {
    static ROLE: Cell<Role> = const { Cell::new(Role::T) };
}

pub fn set_role(r: Role) {
    ROLE.with(|c| c.set(r));
}
pub fn role() -> Role {
    ROLE.with(|c| c.get())
}

#[derive(Clone, Copy, PartialEq, Eq, Debug)]
pub enum MState {
    Starting,
    WaitingLine,
    Running,
    Joining,
    Exited,
}

#[derive(Clone, Copy, PartialEq, Eq, Debug)]
pub enum TState {
    NotStarted,
    /// parked in `idle_wait`: its command channel was empty when it last looked
    Idle,
    AtPoll,
    Running,
}

#[derive(Clone, Debug)]
pub enum Event {
    Fed(String),
    Parsed(String),
    Out(Role, String),
    Debug(Role, String),
    Poll { nodes: u64, ply: usize, iteration: usize },
    IdleEnter(String),
    IdleExit,
    Joining,
    Exited,
    Panic(Role, String),
}

pub struct State {
    pub turn: Role,
    pub m: MState,
    pub t: TState,
    pub pending: u32,
    pub line_for_m: Option<String>,
    pub events: Vec<Event>,
    pub panicked: Option<(Role, String)>,
    // simulated clock: now(n) = base + n * ns_per_node + sum of jumps with at_node <= n
    pub clock_base_ns: u64,
    pub ns_per_node: u64,
    pub jumps: Vec<(u64, i64)>,
    pub last_now_ns: u64,
    pub last_poll: (u64, usize, usize),
    pub polls_total: u64,
    pub parks_total: u64,
}

pub struct Sched {
    pub st: Mutex<State>,
    pub cv: Condvar,
    /// T takes the slow (parking) path at a poll only when nodes >= this
    pub next_event_node: AtomicU64,
}

pub const WAIT_LIMIT: Duration = Duration::from_secs(180);

impl Sched {
    pub fn new() -> Arc<Sched> {
        Arc::new(Sched {
            st: Mutex::new(State {
                turn: Role::S,
                m: MState::Starting,
                t: TState::NotStarted,
                pending: 0,
                line_for_m: None,
                events: Vec::new(),
                panicked: None,
                clock_base_ns: 1_000_000_000_000,
                ns_per_node: 1000,
                jumps: Vec::new(),
                last_now_ns: 0,
                last_poll: (0, 0, 0),
                polls_total: 0,
                parks_total: 0,
            }),
            cv: Condvar::new(),
            next_event_node: AtomicU64::new(u64::MAX),
        })
    }

    pub fn lock(&self) -> MutexGuard<'_, State> {
        match self.st.lock() {
            Ok(g) => g,
            Err(p) => p.into_inner(),
        }
    }

    /// Wait (as the calling thread) until `cond` holds. Returns Err on real-time limit (harness error).
    pub fn wait_until<'a, F: Fn(&State) -> bool>(&'a self, mut g: MutexGuard<'a, State>, cond: F) -> Result<MutexGuard<'a, State>, ()> {
        let start = std::time::Instant::now();
        while !cond(&g) {
            let (ng, to) = match self.cv.wait_timeout(g, Duration::from_secs(5)) {
                Ok(x) => x,
                Err(p) => p.into_inner(),
            };
            g = ng;
            if to.timed_out() && start.elapsed() > WAIT_LIMIT {
                return Err(());
            }
        }
        Ok(g)
    }

    pub fn log(&self, e: Event) {
        let mut g = self.lock();
        g.events.push(e);
    }

    pub fn now_ns(st: &State, nodes: u64) -> u64 {
        let mut t = st.clock_base_ns as i128 + nodes as i128 * st.ns_per_node as i128;
        for (at, d) in &st.jumps {
            if *at <= nodes {
                t += *d as i128;
            }
        }
        t.max(0) as u64
    }
}

/// The hooks installed into engine_core.
pub struct Hooks(pub Arc<Sched>);

impl SimHooks for Hooks {
    fn now(&self, nodes: u64) -> SystemTime {
        let mut g = self.0.lock();
        let ns = Sched::now_ns(&g, nodes);
        g.last_now_ns = ns;
        SystemTime::UNIX_EPOCH + Duration::from_nanos(ns)
    }

    fn on_poll(&self, nodes: u64, ply: usize, iteration: usize) {
        if role() != Role::T {
            return;
        }
        if nodes < self.0.next_event_node.load(Ordering::SeqCst) {
            let mut g = self.0.lock();
            g.polls_total += 1;
            return;
        }
        let mut g = self.0.lock();
        g.polls_total += 1;
        g.parks_total += 1;
        g.t = TState::AtPoll;
        g.last_poll = (nodes, ply, iteration);
        g.events.push(Event::Poll { nodes, ply, iteration });
        g.turn = Role::S;
        self.0.cv.notify_all();
        if let Ok(mut g) = self.0.wait_until(g, |s| s.turn == Role::T) {
            g.t = TState::Running;
        }
    }

    fn idle_enter(&self, bitboard: &Bitboard) {
        if role() != Role::T {
            return;
        }
        let fen = match render(bitboard) {
            Ok(p) => p.to_fen(),
            Err(e) => format!("INCONSISTENT BOARD: {}", e),
        };
        let mut g = self.0.lock();
        g.events.push(Event::IdleEnter(fen));
        // the thread keeps the turn: it now looks into its channel (SimReceiver::recv)
    }

    fn idle_exit(&self) {}

    fn idle_wait(&self) {
        // the channel was empty: park until the scheduler lets this thread look again
        if role() != Role::T {
            return;
        }
        let mut g = self.0.lock();
        g.t = TState::Idle;
        g.turn = Role::S;
        self.0.cv.notify_all();
        if let Ok(mut g) = self.0.wait_until(g, |s| s.turn == Role::T) {
            g.t = TState::Running;
        }
    }

    fn idle_received(&self) {
        if role() != Role::T {
            return;
        }
        let mut g = self.0.lock();
        g.events.push(Event::IdleExit);
    }

    // the message-counting seams are not needed any more: the idle thread never blocks in a real recv
    fn before_send(&self) {}

    fn drained(&self) {}

    fn before_join(&self) {
        let mut g = self.0.lock();
        g.m = MState::Joining;
        g.events.push(Event::Joining);
        g.turn = Role::S;
        self.0.cv.notify_all();
    }
}

//! BoardSim — one long-lived `Bitboard` driven by a seeded operation history and compared,
//! operation by operation, with the reference model. Decides C01 C02 C03 C05 C06 C12 C13 C14
//! (and the static half of C11).

use std::collections::HashMap;
use std::panic::{catch_unwind, AssertUnwindSafe};

use inkayaku_board::constants::{BISHOP, KING, KNIGHT, PAWN, QUEEN, ROOK};
use inkayaku_board::{Bitboard, Move, PlayerState};
use inkayaku_core::constants::{Color, Square};
use inkayaku_core::fen::Fen;
use serde::{Deserialize, Serialize};
use serde_json::json;

use crate::common::{panic_message, RunResult, Violation};
use crate::refchess::{self, file_of, kind, rank_of, sq, sq_name, Mv, Pos, EMPTY};
use crate::rng::{Fnv, Rng};

// ------------------------------------------------------------------ plan

#[derive(Clone, Debug, Serialize, Deserialize, PartialEq)]
pub enum StrGen {
    /// i-th legal move (sorted by UCI text)
    Legal(u32),
    /// i-th pseudo-legal-but-illegal move of the reference (pinned piece, king into check, ...)
    PseudoIllegal(u32),
    /// promotion move with wrong / missing / superfluous letter: (index, variant)
    PromoLetter(u32, u32),
    /// arbitrary from/to/promo triple: from, to, promo index into ["", q, r, b, n, k]
    Triple(u8, u8, u8),
    /// literal text
    Text(String),
}

#[derive(Clone, Debug, Serialize, Deserialize, PartialEq)]
pub enum FenMut {
    ByteFlip(u32, u8),
    Insert(u32, u8),
    Delete(u32),
    Duplicate(u32),
    FieldDrop(u32),
    FieldDup(u32),
    FieldSwap(u32),
    SplitDigit(u32),
    RankSumOff(u32),
    NinthRank,
    BadSide(u8),
    CastleScramble(u32),
    EpSquare(u8, u8),
    ClockText(u32, String),
    DoubleSpace(u32),
    TrailingJunk(String),
    NonAscii(u32),
    Raw(Vec<u8>),
}

#[derive(Clone, Debug, Serialize, Deserialize, PartialEq)]
pub enum Op {
    Play(u32),
    PlayUci(u32),
    ProbeAll,
    ProbeQuiescent,
    TakeBack(u32),
    FindUci(StrGen),
    MakeUci(StrGen),
    UciToPgn(StrGen),
    MakeAll { picks: Vec<u32>, bad_at: Option<u32>, bad: StrGen },
    SanAll,
    SanBad(u32, u32),
    Perft(u32),
    Checkpoint(bool),
    Corrupt(FenMut),
    JumpTo(String),
    Transpose(u32, u32, u32),
    Variant(u32),
    SanLogReplay,
    EvalSym,
    /// relocate one side's king to every empty square and compare check flags / move sets
    KingGrid(bool),
}

#[derive(Clone, Debug, Serialize, Deserialize, PartialEq)]
pub struct BoardPlan {
    pub focus: String,
    pub start_fen: String,
    pub ops: Vec<Op>,
}

const OP_KINDS: usize = 20;

fn weights_for(focus: &str) -> [u32; OP_KINDS] {
    //            Play PlUci Probe ProbQ Take Find MkUci U2P MkAll SanAll SanBad Perft Chkp Corr Jump Trans Var Replay Eval
    match focus {
        "C01" => [40, 5, 20, 15, 8, 0, 0, 0, 0, 0, 0, 8, 2, 0, 4, 0, 0, 0, 0, 6],
        "C02" => [60, 15, 2, 6, 6, 0, 2, 0, 6, 0, 0, 0, 3, 0, 5, 0, 0, 0, 0, 0],
        "C03" => [35, 5, 30, 5, 20, 0, 0, 0, 0, 0, 0, 3, 2, 0, 5, 0, 0, 0, 0, 0],
        "C05" => [45, 5, 30, 5, 6, 0, 0, 0, 0, 0, 0, 0, 2, 0, 6, 0, 0, 0, 0, 25],
        "C06" => [45, 5, 12, 0, 12, 0, 0, 0, 0, 0, 0, 0, 4, 0, 4, 10, 8, 0, 0, 0],
        "C11" => [50, 5, 0, 0, 5, 0, 0, 0, 0, 0, 0, 0, 2, 0, 8, 0, 0, 0, 30, 0],
        "C12" => [35, 5, 0, 0, 5, 0, 0, 0, 0, 0, 0, 0, 20, 25, 10, 0, 0, 0, 0, 0],
        "C13" => [25, 10, 8, 0, 6, 18, 14, 8, 12, 0, 4, 0, 2, 0, 4, 0, 0, 0, 0, 0],
        "C14" => [35, 5, 0, 0, 5, 0, 0, 4, 0, 25, 12, 0, 2, 0, 6, 0, 0, 6, 0, 0],
        _ => [30, 5, 8, 4, 6, 5, 5, 2, 4, 5, 3, 2, 4, 4, 4, 3, 3, 2, 1, 2],
    }
}

const HALF_CLOCKS: &[u32] = &[0, 1, 2, 3, 5, 8, 10, 49, 50, 98, 99, 100, 101, 126, 127, 128, 129, 130, 200, 255, 256, 1000, 2047, 2048, 3600, 3650, 4094, 4095];
const FULL_MOVES: &[u32] = &[1, 2, 3, 10, 40, 77, 150, 200, 1000, 2400];

fn gen_strgen(rng: &mut Rng) -> StrGen {
    match rng.below(10) {
        0 | 1 => StrGen::Legal(rng.below(64) as u32),
        2 | 3 | 4 => StrGen::PseudoIllegal(rng.below(64) as u32),
        5 | 6 => StrGen::PromoLetter(rng.below(16) as u32, rng.below(6) as u32),
        7 | 8 => StrGen::Triple(rng.below(64) as u8, rng.below(64) as u8, rng.below(6) as u8),
        _ => {
            const TEXTS: &[&str] = &["", " ", "e2", "e2e", "e2e4e", "e2e4qq", "i1a1", "a9a1", "a0a1", "a1a1", "0000", "e7e8k", "e7e8p", "xyzw", "e2-e4", "Nf3", "O-O", "e2e4 ", " e2e4", "é2e4", "e2e4\n"];
            StrGen::Text(rng.pick(TEXTS).to_string())
        }
    }
}

fn gen_fenmut(rng: &mut Rng) -> FenMut {
    match rng.below(19) {
        0 => FenMut::ByteFlip(rng.below(100) as u32, 1u8 << rng.below(8)),
        1 => FenMut::Insert(rng.below(100) as u32, *rng.pick(b"pPkK/ 18w-q0x9"),),
        2 => FenMut::Delete(rng.below(100) as u32),
        3 => FenMut::Duplicate(rng.below(100) as u32),
        4 => FenMut::FieldDrop(rng.below(6) as u32),
        5 => FenMut::FieldDup(rng.below(6) as u32),
        6 => FenMut::FieldSwap(rng.below(5) as u32),
        7 => FenMut::SplitDigit(rng.below(16) as u32),
        8 => FenMut::RankSumOff(rng.below(8) as u32),
        9 => FenMut::NinthRank,
        10 => FenMut::BadSide(*rng.pick(b"WBx-10")),
        11 => FenMut::CastleScramble(rng.below(8) as u32),
        12 => FenMut::EpSquare(rng.below(9) as u8, rng.below(9) as u8),
        13 | 14 => {
            const CLOCKS: &[&str] = &["", "-1", "+1", "01", "4294967295", "4294967296", "99999999999999999999", "1.5", "1e3", "0x10", "٣", " ", "0"];
            FenMut::ClockText(rng.below(2) as u32, rng.pick(CLOCKS).to_string())
        }
        15 => FenMut::DoubleSpace(rng.below(5) as u32),
        16 => FenMut::TrailingJunk(rng.pick(&[" ", " x", "\n", " 1", "\t", "\0"]).to_string()),
        17 => FenMut::NonAscii(rng.below(100) as u32),
        _ => {
            let n = rng.below(80) as usize;
            FenMut::Raw((0..n).map(|_| if rng.chance(3, 4) { *rng.pick(b"pnbrqkPNBRQK12345678/ wb-KQkq0123456789") } else { rng.below(256) as u8 }).collect())
        }
    }
}

pub fn with_clocks(p: &Pos, rng: &mut Rng) -> Pos {
    let mut q = p.clone();
    if rng.chance(1, 2) {
        q.half = *rng.pick(HALF_CLOCKS);
        if q.ep.is_some() {
            q.half = 0;
        }
    }
    if rng.chance(1, 2) {
        q.full = *rng.pick(FULL_MOVES);
    }
    // keep (full, half) jointly plausible: the game cannot have fewer plies than the clock
    let ply = 2 * (q.full as u64 - 1) + if q.white_to_move { 0 } else { 1 };
    if (q.half as u64) > ply {
        q.full = q.half / 2 + 2;
    }
    q
}

pub fn gen_plan(focus: &str, seed: u64, thorough: bool, pool: &[Pos]) -> BoardPlan {
    let mut rng = Rng::new(seed);
    let base = weights_for(focus);
    // swarm: re-draw the weights per run (some kinds switched off, some doubled)
    let mut w = base;
    for x in w.iter_mut() {
        match rng.below(6) {
            0 => *x = 0,
            1 => *x *= 3,
            _ => {}
        }
    }
    if w.iter().all(|&x| x == 0) {
        w = base;
    }
    // never switch off the operations a focus is about
    for i in 0..OP_KINDS {
        if base[i] >= 20 && w[i] == 0 {
            w[i] = base[i];
        }
    }
    if w[0] == 0 {
        w[0] = base[0].max(10);
    }
    let start = with_clocks(rng.pick(pool), &mut rng);
    let n_ops = if thorough { rng.range(50, 400) } else { rng.range(30, 160) } as usize;
    let mut ops = Vec::with_capacity(n_ops);
    for _ in 0..n_ops {
        let k = rng.weighted(&w);
        let op = match k {
            0 => Op::Play(rng.below(256) as u32),
            1 => Op::PlayUci(rng.below(256) as u32),
            2 => Op::ProbeAll,
            3 => Op::ProbeQuiescent,
            4 => {
                let span = if rng.chance(1, 4) { 40 } else { 4 };
                Op::TakeBack(1 + rng.below(span) as u32)
            }
            5 => Op::FindUci(gen_strgen(&mut rng)),
            6 => Op::MakeUci(gen_strgen(&mut rng)),
            7 => Op::UciToPgn(gen_strgen(&mut rng)),
            8 => {
                let len = rng.below(8) as usize;
                let picks = (0..len).map(|_| rng.below(256) as u32).collect();
                let bad_at = if rng.chance(2, 3) { Some(rng.below(len as u64 + 1) as u32) } else { None };
                Op::MakeAll { picks, bad_at, bad: gen_strgen(&mut rng) }
            }
            9 => Op::SanAll,
            10 => Op::SanBad(rng.below(64) as u32, rng.below(12) as u32),
            11 => Op::Perft(1 + rng.below(2) as u32),
            12 => Op::Checkpoint(rng.chance(1, 3)),
            13 => Op::Corrupt(gen_fenmut(&mut rng)),
            14 => Op::JumpTo(with_clocks(rng.pick(pool), &mut rng).to_fen()),
            15 => Op::Transpose(rng.below(64) as u32, rng.below(64) as u32, rng.below(64) as u32),
            16 => Op::Variant(rng.below(4096) as u32),
            17 => Op::SanLogReplay,
            18 => Op::EvalSym,
            _ => Op::KingGrid(rng.chance(1, 2)),
        };
        ops.push(op);
    }
    if focus == "C13" && rng.chance(1, 3) {
        // the start position itself (e.p. square still set, rare pin shapes of the pool) is probed first
        ops.insert(0, Op::ProbeAll);
    }
    BoardPlan { focus: focus.to_string(), start_fen: start.to_fen(), ops }
}

// ------------------------------------------------------------------ helpers

#[derive(Clone, Copy, PartialEq, Debug)]
struct Snap {
    /// the six piece occupancies per side (occupancy[NO_PIECE] is a scratch slot of the code
    /// under test and deliberately not part of the position)
    occ: [[u64; 6]; 2],
    castle: [bool; 4],
    turn: u32,
    ep: u32,
    full: u32,
    half: u32,
    hash: u64,
    pawn_hash: u64,
}

fn snap(bb: &Bitboard) -> Snap {
    let o = |s: &PlayerState| [s.occupancy(PAWN), s.occupancy(KNIGHT), s.occupancy(BISHOP), s.occupancy(ROOK), s.occupancy(QUEEN), s.occupancy(KING)];
    Snap {
        occ: [o(&bb.white), o(&bb.black)],
        castle: [bb.white.king_side_castle, bb.white.queen_side_castle, bb.black.king_side_castle, bb.black.queen_side_castle],
        turn: bb.turn,
        ep: bb.en_passant_square_shift,
        full: bb.fullmove_clock,
        half: bb.halfmove_clock,
        hash: bb.calculate_zobrist_hash(),
        pawn_hash: bb.calculate_zobrist_pawn_hash(),
    }
}

/// code-under-test square shift (A8 = 0 .. H1 = 63) -> reference square
pub fn shift_to_sq(shift: u32) -> u8 {
    sq((shift % 8) as i32, 7 - (shift / 8) as i32)
}
pub fn sq_to_shift(s: u8) -> u32 {
    (file_of(s) + 8 * (7 - rank_of(s))) as u32
}

/// Render a `Bitboard` into a reference position using only its public fields.
pub fn render(bb: &Bitboard) -> Result<Pos, String> {
    let mut board = [EMPTY; 64];
    for (state, white) in [(&bb.white, true), (&bb.black, false)] {
        for (piece, ch) in [(PAWN, b'p'), (KNIGHT, b'n'), (BISHOP, b'b'), (ROOK, b'r'), (QUEEN, b'q'), (KING, b'k')] {
            let mut occ = state.occupancy(piece);
            while occ != 0 {
                let shift = occ.trailing_zeros();
                occ &= occ - 1;
                let s = shift_to_sq(shift) as usize;
                if board[s] != EMPTY {
                    return Err(format!("two pieces on {}", sq_name(s as u8)));
                }
                board[s] = if white { ch.to_ascii_uppercase() } else { ch };
            }
        }
    }
    if bb.turn > 1 {
        return Err(format!("turn = {}", bb.turn));
    }
    Ok(Pos {
        board,
        white_to_move: bb.turn == 0,
        castle: [bb.white.king_side_castle, bb.white.queen_side_castle, bb.black.king_side_castle, bb.black.queen_side_castle],
        ep: if bb.en_passant_square_shift == 0 { None } else { Some(shift_to_sq(bb.en_passant_square_shift)) },
        half: bb.halfmove_clock,
        full: bb.fullmove_clock,
    })
}

fn diff_fields(a: &Pos, b: &Pos) -> String {
    let mut d = Vec::new();
    if a.board != b.board {
        d.push("placement");
    }
    if a.white_to_move != b.white_to_move {
        d.push("side");
    }
    if a.castle != b.castle {
        d.push("castling");
    }
    if a.ep != b.ep {
        d.push("ep");
    }
    if a.half != b.half {
        d.push("halfmove");
    }
    if a.full != b.full {
        d.push("fullmove");
    }
    d.join("+")
}

fn uci_sorted(moves: &[Move]) -> Vec<String> {
    let mut v: Vec<String> = moves.iter().map(Move::to_uci_string).collect();
    v.sort();
    v
}

pub fn apply_fenmut(text: &str, m: &FenMut) -> Vec<u8> {
    let mut b = text.as_bytes().to_vec();
    let fields = |t: &str| t.split(' ').map(|s| s.to_string()).collect::<Vec<_>>();
    let idx = |i: u32, len: usize| if len == 0 { 0 } else { i as usize % len };
    match m {
        FenMut::ByteFlip(i, mask) => {
            if !b.is_empty() {
                let k = idx(*i, b.len());
                b[k] ^= mask;
            }
        }
        FenMut::Insert(i, c) => {
            let k = idx(*i, b.len() + 1);
            b.insert(k, *c);
        }
        FenMut::Delete(i) => {
            if !b.is_empty() {
                let k = idx(*i, b.len());
                b.remove(k);
            }
        }
        FenMut::Duplicate(i) => {
            if !b.is_empty() {
                let k = idx(*i, b.len());
                let c = b[k];
                b.insert(k, c);
            }
        }
        FenMut::FieldDrop(i) => {
            let mut f = fields(text);
            let k = idx(*i, f.len());
            f.remove(k);
            b = f.join(" ").into_bytes();
        }
        FenMut::FieldDup(i) => {
            let mut f = fields(text);
            let k = idx(*i, f.len());
            let x = f[k].clone();
            f.insert(k, x);
            b = f.join(" ").into_bytes();
        }
        FenMut::FieldSwap(i) => {
            let mut f = fields(text);
            if f.len() >= 2 {
                let k = idx(*i, f.len() - 1);
                f.swap(k, k + 1);
            }
            b = f.join(" ").into_bytes();
        }
        FenMut::SplitDigit(i) => {
            // replace the i-th digit >= 2 of the placement by two digits with the same sum
            let end = text.find(' ').unwrap_or(text.len());
            let pos: Vec<usize> = (0..end).filter(|&k| (b'2'..=b'8').contains(&b[k])).collect();
            if !pos.is_empty() {
                let k = pos[idx(*i, pos.len())];
                let d = b[k] - b'0';
                b[k] = b'1';
                b.insert(k + 1, b'0' + d - 1);
            }
        }
        FenMut::RankSumOff(i) => {
            let end = text.find(' ').unwrap_or(text.len());
            let pos: Vec<usize> = (0..end).filter(|&k| (b'1'..=b'7').contains(&b[k])).collect();
            if !pos.is_empty() {
                let k = pos[idx(*i, pos.len())];
                b[k] += 1;
            } else if end > 0 {
                b.insert(0, b'1');
            }
        }
        FenMut::NinthRank => {
            let end = text.find(' ').unwrap_or(text.len());
            for (j, c) in b"/8".iter().enumerate() {
                b.insert(end + j, *c);
            }
        }
        FenMut::BadSide(c) => {
            let mut f = fields(text);
            if f.len() > 1 {
                f[1] = (*c as char).to_string();
            }
            b = f.join(" ").into_bytes();
        }
        FenMut::CastleScramble(i) => {
            let mut f = fields(text);
            if f.len() > 2 {
                f[2] = ["qkQK", "KK", "kK", "QK", "KQkqK", "", "Kkx", "--"][idx(*i, 8)].to_string();
            }
            b = f.join(" ").into_bytes();
        }
        FenMut::EpSquare(fi, ri) => {
            let mut f = fields(text);
            if f.len() > 3 {
                let fc = b"abcdefghi"[*fi as usize % 9] as char;
                let rc = b"123456789"[*ri as usize % 9] as char;
                f[3] = format!("{}{}", fc, rc);
            }
            b = f.join(" ").into_bytes();
        }
        FenMut::ClockText(which, t) => {
            let mut f = fields(text);
            if f.len() == 6 {
                f[4 + (*which as usize % 2)] = t.clone();
            }
            b = f.join(" ").into_bytes();
        }
        FenMut::DoubleSpace(i) => {
            let pos: Vec<usize> = (0..b.len()).filter(|&k| b[k] == b' ').collect();
            if !pos.is_empty() {
                b.insert(pos[idx(*i, pos.len())], b' ');
            }
        }
        FenMut::TrailingJunk(t) => b.extend_from_slice(t.as_bytes()),
        FenMut::NonAscii(i) => {
            let k = idx(*i, b.len() + 1);
            for (j, c) in "é".bytes().enumerate() {
                b.insert(k + j, c);
            }
        }
        FenMut::Raw(r) => b = r.clone(),
    }
    b
}

// ------------------------------------------------------------------ the simulator

pub struct BoardSim<'a> {
    focus: &'a str,
    bb: Bitboard,
    rf: Pos,
    /// (reference position before the move, move made, hash before, pawn hash before)
    stack: Vec<(Pos, Move, u64, u64)>,
    hash: u64,
    pawn_hash: u64,
    san_start: Pos,
    san_log: Vec<String>,
    pub res: RunResult,
    log: Fnv,
    shape: Fnv,
    key_to_hash: HashMap<String, u64>,
    hash_to_key: HashMap<u64, String>,
    /// C01 focus only: the board's castling/e.p./clock state has parted from the rules (a C02 matter);
    /// move-set comparison goes on against the rules so that a phantom right shows up as an extra move
    diverged: bool,
}

type V = Violation;

fn viol(prop: &str, class: &str, detail: String) -> V {
    Violation::new(prop, class, detail)
}

impl<'a> BoardSim<'a> {
    pub fn new(focus: &'a str, start_fen: &str) -> Result<Self, V> {
        let rf = Pos::from_fen(start_fen).map_err(|e| viol("HARNESS", "bad_start_fen", e))?;
        let bb = catch_unwind(|| Bitboard::from_fen_string(start_fen))
            .map_err(|e| viol("C12", "fen_read_panic", format!("from_fen_string({:?}) panicked: {}", start_fen, panic_message(&e))).with("site", json!("from_fen_string")))?
            .map_err(|e| viol("C12", "legal_fen_rejected", format!("{:?} rejected: {:?}", start_fen, e)))?;
        let hash = bb.calculate_zobrist_hash();
        let pawn_hash = bb.calculate_zobrist_pawn_hash();
        Ok(BoardSim {
            focus,
            bb,
            rf: rf.clone(),
            stack: Vec::new(),
            hash,
            pawn_hash,
            san_start: rf,
            san_log: Vec::new(),
            res: RunResult::default(),
            log: Fnv::default(),
            shape: Fnv::default(),
            key_to_hash: HashMap::new(),
            hash_to_key: HashMap::new(),
            diverged: false,
        })
    }

    fn note(&mut self, s: &str) {
        self.log.write_str(s);
    }

    /// Full cross-check of the live board against the reference. `blame` is the property the
    /// operation just executed is about (who gets the violation if state diverged).
    fn cross_check(&mut self, blame: &str, ctx: &str) -> Result<(), V> {
        let rendered = render(&self.bb).map_err(|e| viol(blame, "board_inconsistent", format!("{} after {}", e, ctx)))?;
        if self.focus == "C01" && rendered != self.rf && rendered.board == self.rf.board && rendered.white_to_move == self.rf.white_to_move {
            if !self.diverged {
                self.res.bump("probe.meta_state_divergence_tolerated_in_C01");
            }
            self.diverged = true;
        }
        if self.diverged {
            return self.cross_check_moves_only();
        }
        if rendered != self.rf {
            let f = diff_fields(&rendered, &self.rf);
            return Err(viol(blame, "state_mismatch", format!("after {}: board has {} expected {} (fields: {})", ctx, rendered.to_fen(), self.rf.to_fen(), f)).with("fields", json!(f)));
        }
        let fen = Fen::from(&self.bb).fen;
        if fen != self.rf.to_fen() {
            return Err(viol("C12", "fen_write_mismatch", format!("Fen::from gives {:?}, canonical is {:?}", fen, self.rf.to_fen())));
        }
        // hashes
        let h = self.bb.calculate_zobrist_hash();
        let ph = self.bb.calculate_zobrist_pawn_hash();
        if h != self.hash || ph != self.pawn_hash {
            return Err(viol("C06", "incremental_hash_mismatch", format!("after {} at {}: threaded ({:x},{:x}) recomputed ({:x},{:x})", ctx, self.rf.to_fen(), self.hash, self.pawn_hash, h, ph)));
        }
        let key = self.rf.key();
        if let Some(&old) = self.key_to_hash.get(&key) {
            if old != h {
                return Err(viol("C06", "same_position_different_hash", format!("{} hashed {:x} earlier and {:x} now", key, old, h)));
            }
        } else {
            self.key_to_hash.insert(key.clone(), h);
        }
        if let Some(oldkey) = self.hash_to_key.get(&h) {
            if *oldkey != key {
                // 64-bit collision between arbitrary positions: outside the property, log only
                self.res.bump("probe.hash_collision_multi_component");
            }
        } else {
            self.hash_to_key.insert(h, key);
        }
        // legal move set
        let legal = self.bb.generate_legal_moves();
        let got = uci_sorted(&legal);
        let want = self.rf.legal_uci();
        let pseudo = self.bb.generate_pseudo_legal_moves();
        let any = self.bb.is_any_move_legal(&pseudo);
        if any == want.is_empty() || (got.is_empty() != want.is_empty()) {
            return Err(viol("C05", "no_legal_moves_mismatch", format!("at {}: the rules give {} legal moves, generate_legal_moves gives {}, is_any_move_legal says {} (mate/stalemate decision)", self.rf.to_fen(), want.len(), got.len(), any)));
        }
        if got != want {
            let missing: Vec<&String> = want.iter().filter(|m| !got.contains(m)).collect();
            let extra: Vec<&String> = got.iter().filter(|m| !want.contains(m)).collect();
            return Err(viol("C01", "legal_move_set_mismatch", format!("at {}: missing {:?} extra {:?} (got {} want {})", self.rf.to_fen(), missing, extra, got.len(), want.len())));
        }
        // generate_legal_moves must itself leave the board untouched
        let r2 = render(&self.bb).map_err(|e| viol("C03", "board_inconsistent", format!("{} after generate_legal_moves", e)))?;
        if r2 != self.rf {
            return Err(viol("C03", "make_unmake_not_identity", format!("generate_legal_moves changed the board at {}: now {} (fields: {})", self.rf.to_fen(), r2.to_fen(), diff_fields(&r2, &self.rf)))
                .with("fields", json!(diff_fields(&r2, &self.rf)))
                .with("half_ge_128", json!(self.rf.half >= 128)));
        }
        // check flags
        let wc = self.rf.in_check(true);
        let bc = self.rf.in_check(false);
        let cur = if self.rf.white_to_move { wc } else { bc };
        if self.bb.is_in_check(&Color::WHITE) != wc || self.bb.is_in_check(&Color::BLACK) != bc || self.bb.is_current_in_check() != cur {
            return Err(viol("C05", "check_flag_mismatch", format!("at {}: is_in_check(W)={} (ref {}), is_in_check(B)={} (ref {}), current={} (ref {})", self.rf.to_fen(), self.bb.is_in_check(&Color::WHITE), wc, self.bb.is_in_check(&Color::BLACK), bc, self.bb.is_current_in_check(), cur)));
        }
        if !self.bb.is_valid() {
            return Err(viol("C05", "valid_flag_mismatch", format!("is_valid() false at legal position {}", self.rf.to_fen())));
        }
        if want.is_empty() {
            if cur {
                self.res.bump("probe.mate");
            } else {
                self.res.bump("probe.stalemate");
            }
        }
        if wc && bc {
            self.res.bump("probe.both_in_check");
        }
        if self.rf.half >= 128 {
            self.res.bump("probe.half_ge_128");
        }
        if self.rf.half >= 1000 {
            self.res.bump("probe.half_ge_1000");
        }
        Ok(())
    }

    /// Reduced cross-check used once the board's meta state has parted from the rules (C01 focus).
    fn cross_check_moves_only(&mut self) -> Result<(), V> {
        let legal = self.bb.generate_legal_moves();
        let got = uci_sorted(&legal);
        let want = self.rf.legal_uci();
        if got != want {
            let missing: Vec<&String> = want.iter().filter(|m| !got.contains(m)).collect();
            let extra: Vec<&String> = got.iter().filter(|m| !want.contains(m)).collect();
            return Err(viol("C01", "legal_move_set_mismatch", format!("at {} (board state already differs from the rules in castling/e.p./clocks): missing {:?} extra {:?}", self.rf.to_fen(), missing, extra)).with("after_meta_divergence", json!(true)));
        }
        // keep the threaded hashes in step with the board so that later checks stay meaningful
        self.hash = self.bb.calculate_zobrist_hash();
        self.pawn_hash = self.bb.calculate_zobrist_pawn_hash();
        Ok(())
    }

    fn legal_pick(&self, i: u32) -> Option<Mv> {
        let mut ms = self.rf.legal_moves();
        if ms.is_empty() {
            return None;
        }
        ms.sort_by_key(|m| m.uci());
        Some(ms[i as usize % ms.len()])
    }

    fn find_move(&mut self, uci: &str) -> Option<Move> {
        self.bb.generate_pseudo_legal_moves().into_iter().find(|m| m.to_uci_string() == uci)
    }

    fn probes_for_move(&mut self, m: &Mv) {
        let p = self.rf.board[m.from as usize];
        if kind(p) == b'k' && (file_of(m.to) - file_of(m.from)).abs() == 2 {
            let k = format!("probe.castle_{}_{}", if self.rf.white_to_move { "w" } else { "b" }, if file_of(m.to) == 6 { "k" } else { "q" });
            self.res.bump(&k);
        }
        if kind(p) == b'p' && Some(m.to) == self.rf.ep && file_of(m.from) != file_of(m.to) {
            self.res.bump("probe.ep_capture");
        }
        if let Some(pr) = m.promo {
            let k = format!("probe.promo_{}{}", pr as char, if self.rf.board[m.to as usize] != EMPTY { "x" } else { "" });
            self.res.bump(&k);
        }
        let cap = self.rf.board[m.to as usize];
        if kind(cap) == b'r' && [0u8, 7, 56, 63].contains(&m.to) {
            let idx = match m.to {
                7 => 0,
                0 => 1,
                63 => 2,
                _ => 3,
            };
            if self.rf.castle[idx] {
                self.res.bump("probe.rook_captured_at_home_with_right");
            }
        }
    }

    fn do_make(&mut self, m: &Mv, mv: Move) {
        self.probes_for_move(m);
        let san = self.rf.san(m);
        let (dx, dp) = Bitboard::zobrist_xor(mv);
        self.stack.push((self.rf.clone(), mv, self.hash, self.pawn_hash));
        self.bb.make(mv);
        self.hash ^= dx;
        self.pawn_hash ^= dp;
        self.rf = self.rf.apply(m);
        self.san_log.push(san);
    }

    fn resolve(&mut self, g: &StrGen) -> String {
        match g {
            StrGen::Legal(i) => self.legal_pick(*i).map_or("a1a1".to_string(), |m| m.uci()),
            StrGen::PseudoIllegal(i) => {
                let w = self.rf.white_to_move;
                let mut ms: Vec<Mv> = self.rf.pseudo_moves().into_iter().filter(|m| self.rf.apply(m).in_check(w)).collect();
                ms.sort_by_key(|m| m.uci());
                if ms.is_empty() {
                    // nothing pinned here: fall back to a move of an opponent's piece / empty square
                    let s = (*i % 64) as u8;
                    format!("{}{}", sq_name(s), sq_name((s + 8) % 64))
                } else {
                    self.res.bump("probe.pseudo_illegal_string");
                    ms[*i as usize % ms.len()].uci()
                }
            }
            StrGen::PromoLetter(i, variant) => {
                let ms = self.rf.legal_moves();
                let promos: Vec<&Mv> = ms.iter().filter(|m| m.promo.is_some()).collect();
                if promos.is_empty() {
                    // superfluous letter on a normal move
                    match self.legal_pick(*i) {
                        Some(m) => format!("{}{}", m.uci(), ["q", "r", "b", "n", "k", "p"][*variant as usize % 6]),
                        None => "e7e8q".into(),
                    }
                } else {
                    self.res.bump("probe.promo_letter_string");
                    let m = promos[*i as usize % promos.len()];
                    let base = format!("{}{}", sq_name(m.from), sq_name(m.to));
                    match variant % 6 {
                        0 => base,
                        1 => format!("{}k", base),
                        2 => format!("{}p", base),
                        3 => format!("{}Q", base),
                        4 => format!("{}qq", base),
                        _ => format!("{}{}", base, (m.promo.unwrap()) as char),
                    }
                }
            }
            StrGen::Triple(f, t, p) => format!("{}{}{}", sq_name(*f % 64), sq_name(*t % 64), ["", "q", "r", "b", "n", "k"][*p as usize % 6]),
            StrGen::Text(t) => t.clone(),
        }
    }

    /// Does the string denote a legal move once trimmed (find_uci trims its argument)?
    fn ref_legal(&self, s: &str) -> Option<Mv> {
        let t = s.trim();
        let m = Mv::parse(t)?;
        if self.rf.legal_moves().contains(&m) {
            Some(m)
        } else {
            None
        }
    }

    fn unchanged(&mut self, before: &Snap, prop: &str, class: &str, ctx: &str) -> Result<(), V> {
        let after = snap(&self.bb);
        if after != *before {
            let now = render(&self.bb).map(|p| p.to_fen()).unwrap_or_else(|e| e);
            return Err(viol(prop, class, format!("{} changed the board: was {} now {}", ctx, self.rf.to_fen(), now)).with("site", json!(ctx.split('(').next().unwrap_or(ctx))));
        }
        Ok(())
    }

    pub fn step(&mut self, op: &Op) -> Result<(), V> {
        self.res.steps += 1;
        // the properties quantify half-move clocks 0..4095 (the undo field is 12 bits wide):
        // never drive the live board beyond that range
        // (make+unmake at clock 4095 itself is in range: operations that do not advance the live
        // clock stay enabled up to 4095, operations that play moves stop early enough)
        let advances = matches!(op, Op::Play(_) | Op::PlayUci(_) | Op::MakeUci(_) | Op::MakeAll { .. } | Op::Transpose(..));
        if (advances && self.rf.half >= 4080) || self.rf.half > 4095 {
            self.res.bump("noop.clock_guard");
            return Ok(());
        }
        if self.rf.half == 4095 {
            self.res.bump("probe.half_eq_4095");
        }
        if self.diverged && !matches!(op, Op::Play(_) | Op::JumpTo(_)) {
            return Ok(());
        }
        if self.diverged {
            if let Op::JumpTo(_) = op {
                self.diverged = false;
            }
        }
        match op {
            Op::Play(i) => {
                let m = match self.legal_pick(*i) {
                    Some(m) => m,
                    None => {
                        self.res.bump("noop.terminal");
                        return Ok(());
                    }
                };
                let uci = m.uci();
                self.note(&uci);
                let legal = self.bb.generate_legal_moves();
                let mv = *legal.iter().find(|x| x.to_uci_string() == uci).ok_or_else(|| viol("C01", "legal_move_missing", format!("{} not generated at {}", uci, self.rf.to_fen())))?;
                self.do_make(&m, mv);
                self.res.bump("op.play");
                self.cross_check("C02", &format!("make({})", uci))
            }
            Op::PlayUci(i) => {
                let m = match self.legal_pick(*i) {
                    Some(m) => m,
                    None => return Ok(()),
                };
                let uci = m.uci();
                self.note(&uci);
                let mv = self.find_move(&uci).ok_or_else(|| viol("C01", "legal_move_missing", format!("{} not generated at {}", uci, self.rf.to_fen())))?;
                self.probes_for_move(&m);
                let san = self.rf.san(&m);
                let (dx, dp) = Bitboard::zobrist_xor(mv);
                let r = self.bb.make_uci(&uci);
                if let Err(e) = r {
                    return Err(viol("C13", "legal_move_rejected", format!("make_uci({}) at {} -> {:?}", uci, self.rf.to_fen(), e)));
                }
                self.stack.push((self.rf.clone(), mv, self.hash, self.pawn_hash));
                self.hash ^= dx;
                self.pawn_hash ^= dp;
                self.rf = self.rf.apply(&m);
                self.san_log.push(san);
                self.res.bump("op.play_uci");
                self.cross_check("C13", &format!("make_uci({})", uci))
            }
            Op::ProbeAll => {
                let pseudo = self.bb.generate_pseudo_legal_moves();
                let before = snap(&self.bb);
                let w = self.rf.white_to_move;
                let mut valid = Vec::new();
                let mut seen = std::collections::HashSet::new();
                for mv in pseudo {
                    let uci = mv.to_uci_string();
                    if !seen.insert(uci.clone()) {
                        return Err(viol("C01", "duplicate_pseudo_legal_move", format!("{} generated twice at {}", uci, self.rf.to_fen())));
                    }
                    let m = Mv::parse(&uci).ok_or_else(|| viol("C01", "malformed_move", format!("generator emitted {:?} at {}", uci, self.rf.to_fen())))?;
                    if self.rf.board[m.from as usize] == EMPTY || refchess::is_white(self.rf.board[m.from as usize]) != w {
                        return Err(viol("C01", "extra_pseudo_move", format!("{} moves no own piece at {}", uci, self.rf.to_fen())));
                    }
                    let after = self.rf.apply(&m);
                    self.bb.make(mv);
                    let mover_in_check = after.in_check(w);
                    let other_in_check = after.in_check(!w);
                    let okv = self.bb.is_valid() == !mover_in_check;
                    let okw = self.bb.is_in_check(&Color::WHITE) == after.in_check(true);
                    let okb = self.bb.is_in_check(&Color::BLACK) == after.in_check(false);
                    let okc = self.bb.is_current_in_check() == other_in_check;
                    if mover_in_check {
                        self.res.bump("probe.illegal_pseudo_made");
                        if other_in_check {
                            self.res.bump("probe.mid_op_both_in_check");
                        }
                    }
                    if !(okv && okw && okb && okc) {
                        self.bb.unmake(mv);
                        return Err(viol("C05", "check_flag_mismatch_mid_operation", format!("after make({}) from {}: is_valid={} (ref {}), W {} B {} cur {}", uci, self.rf.to_fen(), !okv ^ !mover_in_check, !mover_in_check, okw, okb, okc)));
                    }
                    if !mover_in_check {
                        // C02 for every legal successor, not only the one played
                        let r = render(&self.bb).map_err(|e| viol("C02", "board_inconsistent", format!("{} after make({})", e, uci)))?;
                        if r != after {
                            self.bb.unmake(mv);
                            return Err(viol("C02", "state_mismatch", format!("after make({}) from {}: board has {} expected {} (fields: {})", uci, self.rf.to_fen(), r.to_fen(), after.to_fen(), diff_fields(&r, &after))).with("fields", json!(diff_fields(&r, &after))));
                        }
                        let (dx, dp) = Bitboard::zobrist_xor(mv);
                        if self.bb.calculate_zobrist_hash() != self.hash ^ dx || self.bb.calculate_zobrist_pawn_hash() != self.pawn_hash ^ dp {
                            self.bb.unmake(mv);
                            return Err(viol("C06", "incremental_hash_mismatch", format!("after make({}) from {}", uci, self.rf.to_fen())));
                        }
                        valid.push(uci.clone());
                    }
                    self.bb.unmake(mv);
                    if self.focus == "C13" {
                        // the text of EVERY pseudo-legal move of the position goes through find_uci:
                        // accepted exactly if legal, and nothing changes either way
                        let got = self.bb.find_uci(&uci);
                        self.res.bump("op.find_uci_of_pseudo_legal");
                        if got.is_ok() == mover_in_check {
                            return Err(viol("C13", if mover_in_check { "illegal_move_accepted" } else { "legal_move_rejected" }, format!("find_uci({:?}) at {} -> {:?}", uci, self.rf.to_fen(), got.map(|m| m.to_uci_string()))));
                        }
                        if snap(&self.bb) != before {
                            return Err(viol("C13", "rejected_or_probed_move_changed_board", format!("find_uci({:?}) at {}", uci, self.rf.to_fen())));
                        }
                    }
                    let now = snap(&self.bb);
                    if now != before {
                        let r = render(&self.bb).map(|p| p.to_fen()).unwrap_or_else(|e| e);
                        let fields = render(&self.bb).map(|p| diff_fields(&p, &self.rf)).unwrap_or_default();
                        return Err(viol("C03", "make_unmake_not_identity", format!("make+unmake of {} ({}) at {} leaves {} (fields: {})", uci, if mover_in_check { "illegal" } else { "legal" }, self.rf.to_fen(), r, fields))
                            .with("fields", json!(fields))
                            .with("half_ge_128", json!(self.rf.half >= 128)));
                    }
                }
                valid.sort();
                if valid != self.rf.legal_uci() {
                    return Err(viol("C01", "filtered_pseudo_set_mismatch", format!("at {}: make/is_valid filter gives {:?}, rules give {:?}", self.rf.to_fen(), valid, self.rf.legal_uci())));
                }
                self.res.bump("op.probe_all");
                Ok(())
            }
            Op::ProbeQuiescent => {
                let w = self.rf.white_to_move;
                let nq = self.bb.generate_pseudo_legal_non_quiescent_moves();
                let before = snap(&self.bb);
                let mut got = Vec::new();
                for mv in nq {
                    let uci = mv.to_uci_string();
                    let m = Mv::parse(&uci).ok_or_else(|| viol("C01", "malformed_move", format!("{:?}", uci)))?;
                    let after = self.rf.apply(&m);
                    // the Move values of THIS generator must carry complete make/unmake information too
                    self.bb.make(mv);
                    let r = render(&self.bb);
                    self.bb.unmake(mv);
                    if !after.in_check(w) {
                        match r {
                            Ok(r) if r == after => {}
                            Ok(r) => return Err(viol("C02", "state_mismatch", format!("after make({}) of a move from the capture/promotion generator at {}: board has {} expected {} (fields: {})", uci, self.rf.to_fen(), r.to_fen(), after.to_fen(), diff_fields(&r, &after))).with("fields", json!(diff_fields(&r, &after))).with("generator", json!("non_quiescent"))),
                            Err(e) => return Err(viol("C02", "board_inconsistent", e)),
                        }
                        got.push(uci.clone());
                    }
                    if snap(&self.bb) != before {
                        return Err(viol("C03", "make_unmake_not_identity", format!("make+unmake of {} (capture/promotion generator) at {} changed the board", uci, self.rf.to_fen())).with("generator", json!("non_quiescent")));
                    }
                }
                got.sort();
                let mut want: Vec<String> = self.rf.legal_moves().iter().filter(|m| self.rf.is_capture(m) || m.promo.is_some()).map(|m| m.uci()).collect();
                want.sort();
                if got != want {
                    return Err(viol("C01", "quiescence_set_mismatch", format!("at {}: got {:?} want {:?}", self.rf.to_fen(), got, want)));
                }
                if want.iter().any(|u| u.len() == 5) {
                    self.res.bump("probe.quiescent_promotion");
                }
                self.res.bump("op.probe_q");
                Ok(())
            }
            Op::TakeBack(k) => {
                let mut n = 0;
                for _ in 0..*k {
                    match self.stack.pop() {
                        Some((prev, mv, h, ph)) => {
                            self.bb.unmake(mv);
                            self.rf = prev;
                            self.hash = h;
                            self.pawn_hash = ph;
                            self.san_log.pop();
                            n += 1;
                        }
                        None => break,
                    }
                }
                if n > 0 {
                    self.res.bump("op.take_back");
                    self.res.add("moves_unmade", n);
                    self.note("tb");
                    return self.cross_check("C03", &format!("unmake x{}", n));
                }
                Ok(())
            }
            Op::FindUci(g) => {
                let s = self.resolve(g);
                let before = snap(&self.bb);
                let want = self.ref_legal(&s);
                let got = self.bb.find_uci(&s);
                self.res.bump("op.find_uci");
                match (&want, &got) {
                    (Some(m), Ok(mv)) => {
                        if mv.to_uci_string() != m.uci() {
                            return Err(viol("C13", "wrong_move_found", format!("find_uci({:?}) returned {}", s, mv.to_uci_string())));
                        }
                    }
                    (Some(_), Err(e)) => return Err(viol("C13", "legal_move_rejected", format!("find_uci({:?}) at {} -> {:?}", s, self.rf.to_fen(), e))),
                    (None, Ok(mv)) => return Err(viol("C13", "illegal_move_accepted", format!("find_uci({:?}) at {} -> Ok({})", s, self.rf.to_fen(), mv.to_uci_string()))),
                    (None, Err(_)) => {
                        self.res.bump("fault.rejected_move_string");
                    }
                }
                self.unchanged(&before, "C13", "rejected_or_probed_move_changed_board", &format!("find_uci({:?})", s))
            }
            Op::UciToPgn(g) => {
                let s = self.resolve(g);
                let before = snap(&self.bb);
                let want = self.ref_legal(&s);
                let got = self.bb.uci_to_pgn(&s);
                self.res.bump("op.uci_to_pgn");
                match (&want, &got) {
                    (Some(m), Ok(t)) => {
                        if *t != self.rf.san(m) {
                            return Err(viol("C14", "san_mismatch", format!("uci_to_pgn({}) at {} = {:?}, standard is {:?}", s, self.rf.to_fen(), t, self.rf.san(m))));
                        }
                    }
                    (Some(_), Err(e)) => return Err(viol("C13", "legal_move_rejected", format!("uci_to_pgn({:?}) at {} -> {:?}", s, self.rf.to_fen(), e))),
                    (None, Ok(t)) => return Err(viol("C13", "illegal_move_accepted", format!("uci_to_pgn({:?}) at {} -> Ok({})", s, self.rf.to_fen(), t))),
                    (None, Err(_)) => self.res.bump("fault.rejected_move_string"),
                }
                self.unchanged(&before, "C13", "rejected_or_probed_move_changed_board", &format!("uci_to_pgn({:?})", s))
            }
            Op::MakeUci(g) => {
                let s = self.resolve(g);
                let before = snap(&self.bb);
                let want = self.ref_legal(&s);
                let mv = want.as_ref().and_then(|m| self.find_move(&m.uci()));
                let got = self.bb.make_uci(&s);
                self.res.bump("op.make_uci");
                match (want, got) {
                    (Some(m), Ok(())) => {
                        let mv = mv.ok_or_else(|| viol("C01", "legal_move_missing", format!("{} not generated", m.uci())))?;
                        self.probes_for_move(&m);
                        let san = self.rf.san(&m);
                        let (dx, dp) = Bitboard::zobrist_xor(mv);
                        self.stack.push((self.rf.clone(), mv, self.hash, self.pawn_hash));
                        self.hash ^= dx;
                        self.pawn_hash ^= dp;
                        self.rf = self.rf.apply(&m);
                        self.san_log.push(san);
                        self.cross_check("C13", &format!("make_uci({:?})", s))
                    }
                    (Some(_), Err(e)) => Err(viol("C13", "legal_move_rejected", format!("make_uci({:?}) at {} -> {:?}", s, self.rf.to_fen(), e))),
                    (None, Ok(())) => Err(viol("C13", "illegal_move_accepted", format!("make_uci({:?}) at {} -> Ok", s, self.rf.to_fen()))),
                    (None, Err(_)) => {
                        self.res.bump("fault.rejected_move_string");
                        self.unchanged(&before, "C13", "rejected_or_probed_move_changed_board", &format!("make_uci({:?})", s))
                    }
                }
            }
            Op::MakeAll { picks, bad_at, bad } => {
                // build the list on the reference first
                let before = snap(&self.bb);
                let mut list: Vec<String> = Vec::new();
                let mut cur = self.rf.clone();
                let mut made: Vec<(Pos, Mv)> = Vec::new();
                let mut fails = false;
                for (j, pick) in picks.iter().enumerate() {
                    if *bad_at == Some(j as u32) {
                        let saved = std::mem::replace(&mut self.rf, cur.clone());
                        let s = self.resolve(bad);
                        let legal_here = self.ref_legal(&s);
                        self.rf = saved;
                        list.push(s);
                        match legal_here {
                            Some(m) => {
                                made.push((cur.clone(), m));
                                cur = cur.apply(&m);
                            }
                            None => {
                                fails = true;
                                // whatever follows is irrelevant for the verdict but must not be applied
                                list.push("e2e4".into());
                                break;
                            }
                        }
                    }
                    let mut ms = cur.legal_moves();
                    if ms.is_empty() {
                        break;
                    }
                    ms.sort_by_key(|m| m.uci());
                    let m = ms[*pick as usize % ms.len()];
                    list.push(m.uci());
                    made.push((cur.clone(), m));
                    cur = cur.apply(&m);
                }
                if !fails && *bad_at == Some(picks.len() as u32) {
                    let saved = std::mem::replace(&mut self.rf, cur.clone());
                    let s = self.resolve(bad);
                    let legal_here = self.ref_legal(&s);
                    self.rf = saved;
                    list.push(s);
                    match legal_here {
                        Some(m) => {
                            made.push((cur.clone(), m));
                            cur = cur.apply(&m);
                        }
                        None => fails = true,
                    }
                }
                self.res.bump("op.make_all");
                let got = self.bb.make_all_uci(&list);
                match (fails, got) {
                    (true, Ok(())) => Err(viol("C13", "illegal_move_accepted", format!("make_all_uci({:?}) at {} -> Ok", list, self.rf.to_fen()))),
                    (true, Err(_)) => {
                        self.res.bump("fault.rejected_move_in_list");
                        self.res.bump(&format!("fault.rejected_move_in_list_at_{}", made.len().min(8)));
                        self.unchanged(&before, "C13", "move_list_not_all_or_nothing", &format!("make_all_uci({:?})", list))
                    }
                    (false, Err(e)) => Err(viol("C13", "legal_move_rejected", format!("make_all_uci({:?}) at {} -> {:?}", list, self.rf.to_fen(), e))),
                    (false, Ok(())) => {
                        // board must now be `cur`; rebuild the bookkeeping by replaying on the reference
                        // (hash threading restarts from the recomputed value of the successor chain)
                        let rendered = render(&self.bb).map_err(|e| viol("C13", "board_inconsistent", e))?;
                        if rendered != cur {
                            return Err(viol("C13", "state_mismatch", format!("after make_all_uci({:?}) from {}: {} expected {}", list, self.rf.to_fen(), rendered.to_fen(), cur.to_fen())));
                        }
                        // we cannot unmake across this op without the Move values: restart the stack
                        for (p, m) in &made {
                            self.san_log.push(p.san(m));
                        }
                        self.stack.clear();
                        self.rf = cur;
                        self.hash = self.bb.calculate_zobrist_hash();
                        self.pawn_hash = self.bb.calculate_zobrist_pawn_hash();
                        self.cross_check("C13", &format!("make_all_uci({:?})", list))
                    }
                }
            }
            Op::SanAll => {
                let before = snap(&self.bb);
                let ms = self.rf.legal_moves();
                for m in &ms {
                    let uci = m.uci();
                    let want = self.rf.san(m);
                    let got = self.bb.uci_to_pgn(&uci).map_err(|e| viol("C13", "legal_move_rejected", format!("uci_to_pgn({}) at {} -> {:?}", uci, self.rf.to_fen(), e)))?;
                    if got != want {
                        let class = if want.ends_with('#') != got.ends_with('#') || want.ends_with('+') != got.ends_with('+') {
                            "san_suffix_mismatch"
                        } else if got.len() != want.len() && got.as_bytes().first() == want.as_bytes().first() {
                            "san_disambiguation_mismatch"
                        } else {
                            "san_mismatch"
                        };
                        return Err(viol("C14", class, format!("uci_to_pgn({}) at {} = {:?}, standard is {:?}", uci, self.rf.to_fen(), got, want)));
                    }
                    let back = self.bb.pgn_to_bb(&want).map_err(|_| viol("C14", "san_round_trip_failed", format!("pgn_to_bb({:?}) at {} -> Err", want, self.rf.to_fen())))?;
                    if back.to_uci_string() != uci {
                        return Err(viol("C14", "san_round_trip_wrong_move", format!("pgn_to_bb({:?}) at {} -> {} expected {}", want, self.rf.to_fen(), back.to_uci_string(), uci)));
                    }
                    let via_move = back.to_pgn_string(&mut self.bb).map_err(|e| viol("C14", "san_round_trip_failed", format!("to_pgn_string -> {:?}", e)))?;
                    if via_move != want {
                        return Err(viol("C14", "san_mismatch", format!("Move::to_pgn_string({}) = {:?}, standard {:?}", uci, via_move, want)));
                    }
                    if want.len() >= 4 && want.as_bytes()[0].is_ascii_uppercase() && want.as_bytes()[0] != b'O' {
                        let core = want.trim_end_matches(['+', '#']);
                        let body_len = core.len() - if core.contains('x') { 1 } else { 0 };
                        if body_len == 4 {
                            self.res.bump("probe.san_disambiguated");
                        }
                        if body_len == 5 {
                            self.res.bump("probe.san_double_disambiguated");
                        }
                    }
                }
                self.res.bump("op.san_all");
                self.res.add("san_moves_checked", ms.len() as u64);
                self.unchanged(&before, "C13", "rejected_or_probed_move_changed_board", "uci_to_pgn/pgn_to_bb(all legal)")
            }
            Op::SanBad(i, variant) => {
                // derive a SAN-looking string and decide with the reference what it denotes
                let before = snap(&self.bb);
                let ms = self.rf.legal_moves();
                let base = if ms.is_empty() { "Nf3".to_string() } else { self.rf.san(&ms[*i as usize % ms.len()]) };
                let core: String = base.trim_end_matches(['+', '#']).to_string();
                let s = match variant % 12 {
                    0 => format!("{}+", core),
                    1 => format!("{}#", core),
                    2 => core.clone(),
                    3 => format!("N{}", &core[core.len().saturating_sub(2)..]),
                    4 => format!("Q{}", &core[core.len().saturating_sub(2)..]),
                    5 => core.replace('x', ""),
                    6 => format!("{}=Q", core),
                    7 => "O-O".to_string(),
                    8 => "O-O-O".to_string(),
                    9 => format!("{}!?", base),
                    10 => core.to_lowercase(),
                    _ => format!("{}x", core),
                };
                let denoted = san_denotes(&self.rf, &s);
                let got = self.bb.pgn_to_bb(&s);
                self.res.bump("op.san_bad");
                match (denoted, got) {
                    (SanMeaning::Unique(m), Ok(mv)) => {
                        if mv.to_uci_string() != m.uci() {
                            return Err(viol("C14", "san_parsed_to_wrong_move", format!("pgn_to_bb({:?}) at {} -> {} expected {}", s, self.rf.to_fen(), mv.to_uci_string(), m.uci())));
                        }
                    }
                    (SanMeaning::Unique(m), Err(_)) => {
                        return Err(viol("C14", "standard_san_rejected", format!("pgn_to_bb({:?}) at {} -> Err, denotes {}", s, self.rf.to_fen(), m.uci())));
                    }
                    (SanMeaning::None, Ok(mv)) => {
                        return Err(viol("C14", "non_move_san_accepted", format!("pgn_to_bb({:?}) at {} -> {}", s, self.rf.to_fen(), mv.to_uci_string())));
                    }
                    (SanMeaning::None, Err(_)) => self.res.bump("fault.rejected_san"),
                    (SanMeaning::Unspecified, Ok(mv)) => {
                        // must at least be a legal move
                        if self.ref_legal(&mv.to_uci_string()).is_none() {
                            return Err(viol("C14", "san_parsed_to_illegal_move", format!("pgn_to_bb({:?}) at {} -> {}", s, self.rf.to_fen(), mv.to_uci_string())));
                        }
                        self.res.bump("probe.san_unspecified_accepted");
                    }
                    (SanMeaning::Unspecified, Err(_)) => self.res.bump("probe.san_unspecified_rejected"),
                }
                self.unchanged(&before, "C13", "rejected_or_probed_move_changed_board", &format!("pgn_to_bb({:?})", s))
            }
            Op::Perft(d) => {
                let before = snap(&self.bb);
                let got = self.bb.perft(*d as usize);
                let mut gotv: Vec<(String, u64)> = got.iter().map(|(m, n)| (m.to_uci_string(), *n)).collect();
                gotv.sort();
                let mut wantv: Vec<(String, u64)> = self.rf.legal_moves().iter().map(|m| (m.uci(), self.rf.apply(m).perft(*d - 1))).collect();
                wantv.sort();
                if gotv != wantv {
                    return Err(viol("C01", "perft_divide_mismatch", format!("perft({}) at {}: got {:?} want {:?}", d, self.rf.to_fen(), gotv, wantv)));
                }
                self.res.bump("op.perft");
                self.unchanged(&before, "C03", "make_unmake_not_identity", &format!("perft({})", d)).map_err(|v| v.with("half_ge_128", json!(self.rf.half >= 128)))
            }
            Op::Checkpoint(four) => {
                let text = Fen::from(&self.bb).fen;
                if text != self.rf.to_fen() {
                    return Err(viol("C12", "fen_write_mismatch", format!("wrote {:?} for {:?}", text, self.rf.to_fen())));
                }
                let use4 = *four && self.rf.half == 0 && self.rf.full == 1;
                let stored = if use4 { self.rf.to_fen4() } else { text };
                let restored = catch_unwind(|| Bitboard::from_fen_string(&stored))
                    .map_err(|e| viol("C12", "fen_read_panic", format!("{:?}: {}", stored, panic_message(&e))))?
                    .map_err(|e| viol("C12", "legal_fen_rejected", format!("{:?} -> {:?}", stored, e)))?;
                self.bb = restored; // the restored instance carries the rest of the history
                self.res.bump("op.checkpoint_restore");
                if use4 {
                    self.res.bump("probe.four_field_fen");
                }
                self.note("cp");
                self.cross_check("C12", &format!("restore from {:?}", stored))
            }
            Op::Corrupt(mu) => {
                let text = self.rf.to_fen();
                let bytes = apply_fenmut(&text, mu);
                let s = match String::from_utf8(bytes) {
                    Ok(s) => s,
                    Err(_) => {
                        self.res.bump("noop.non_utf8_fen");
                        return Ok(());
                    }
                };
                self.res.bump("op.corrupt_restore");
                self.res.bump("fault.fen_text_corruption");
                check_fen_text(&s, &mut self.res)
            }
            Op::JumpTo(fen) => {
                let rf = Pos::from_fen(fen).map_err(|e| viol("HARNESS", "bad_pool_fen", e))?;
                let bb = catch_unwind(|| Bitboard::from_fen_string(fen))
                    .map_err(|e| viol("C12", "fen_read_panic", format!("{:?}: {}", fen, panic_message(&e))).with("site", json!("from_fen_string")))?
                    .map_err(|e| viol("C12", "legal_fen_rejected", format!("{:?} -> {:?}", fen, e)))?;
                self.bb = bb;
                self.rf = rf.clone();
                self.stack.clear();
                self.hash = self.bb.calculate_zobrist_hash();
                self.pawn_hash = self.bb.calculate_zobrist_pawn_hash();
                self.san_start = rf;
                self.san_log.clear();
                self.res.bump("op.jump");
                self.note(fen);
                self.shape.write_str(fen);
                self.cross_check("C12", &format!("from_fen_string({:?})", fen))
            }
            Op::Transpose(a, b, c) => {
                // m1 r m2  vs  m2 r m1 when both orders are legal
                let p0 = self.rf.clone();
                let mut l0 = p0.legal_moves();
                l0.sort_by_key(|m| m.uci());
                if l0.len() < 2 {
                    return Ok(());
                }
                let m1 = l0[*a as usize % l0.len()];
                let m2 = l0[*c as usize % l0.len()];
                if m1 == m2 {
                    return Ok(());
                }
                let p1 = p0.apply(&m1);
                let mut l1 = p1.legal_moves();
                l1.sort_by_key(|m| m.uci());
                if l1.is_empty() {
                    return Ok(());
                }
                let r = l1[*b as usize % l1.len()];
                let p2 = p1.apply(&r);
                if !p2.legal_moves().contains(&m2) {
                    return Ok(());
                }
                let end_a = p2.apply(&m2);
                let q1 = p0.apply(&m2);
                if !q1.legal_moves().contains(&r) {
                    return Ok(());
                }
                let q2 = q1.apply(&r);
                if !q2.legal_moves().contains(&m1) {
                    return Ok(());
                }
                let end_b = q2.apply(&m1);
                if end_a.key() != end_b.key() {
                    return Ok(());
                }
                let mut run = |sim: &mut Self, seq: [Mv; 3]| -> Result<(u64, u64), V> {
                    let mut made = Vec::new();
                    let (mut h, mut ph) = (sim.hash, sim.pawn_hash);
                    for m in seq {
                        let mv = sim.find_move(&m.uci()).ok_or_else(|| viol("C01", "legal_move_missing", m.uci()))?;
                        let (dx, dp) = Bitboard::zobrist_xor(mv);
                        sim.bb.make(mv);
                        h ^= dx;
                        ph ^= dp;
                        made.push(mv);
                    }
                    let full = sim.bb.calculate_zobrist_hash();
                    let pawn = sim.bb.calculate_zobrist_pawn_hash();
                    for mv in made.into_iter().rev() {
                        sim.bb.unmake(mv);
                    }
                    if full != h || pawn != ph {
                        return Err(viol("C06", "incremental_hash_mismatch", format!("line {:?} from {}", seq.iter().map(|m| m.uci()).collect::<Vec<_>>(), sim.rf.to_fen())));
                    }
                    Ok((full, pawn))
                };
                let ha = run(self, [m1, r, m2])?;
                let hb = run(self, [m2, r, m1])?;
                self.res.bump("probe.transposition_pair");
                if ha != hb {
                    return Err(viol("C06", "transposition_hash_differs", format!("{} {} {} vs {} {} {} from {}", m1.uci(), r.uci(), m2.uci(), m2.uci(), r.uci(), m1.uci(), p0.to_fen())));
                }
                // clocks must not matter either
                if end_a.half != end_b.half {
                    self.res.bump("probe.transposition_with_different_clocks");
                }
                self.cross_check("C03", "transpose probe")
            }
            Op::Variant(i) => self.variant(*i),
            Op::SanLogReplay => {
                let start = self.san_start.to_fen();
                let mut b = Bitboard::from_fen_string(&start).map_err(|e| viol("C12", "legal_fen_rejected", format!("{:?}", e)))?;
                for (j, s) in self.san_log.iter().enumerate() {
                    let mv = b.pgn_to_bb(s).map_err(|_| viol("C14", "san_log_replay_failed", format!("move {} {:?} of log from {} not accepted", j, s, start)))?;
                    b.make(mv);
                }
                let end = render(&b).map_err(|e| viol("C14", "board_inconsistent", e))?;
                if end != self.rf {
                    return Err(viol("C14", "san_log_replay_diverged", format!("log {:?} from {} ends at {} expected {}", self.san_log, start, end.to_fen(), self.rf.to_fen())));
                }
                self.res.bump("op.san_log_replay");
                self.res.add("san_log_moves_replayed", self.san_log.len() as u64);
                Ok(())
            }
            Op::KingGrid(white) => {
                let base = self.rf.clone();
                let k = if *white { b'K' } else { b'k' };
                let from = match base.king_sq(*white) {
                    Some(s) => s,
                    None => return Ok(()),
                };
                let mut checked = 0;
                for t in 0..64u8 {
                    if base.board[t as usize] != EMPTY {
                        continue;
                    }
                    let mut v = base.clone();
                    v.board[from as usize] = EMPTY;
                    v.board[t as usize] = k;
                    v.white_to_move = *white; // the relocated king may stand in check, so its side must be to move
                    v.ep = None;
                    if *white {
                        v.castle[0] = false;
                        v.castle[1] = false;
                    } else {
                        v.castle[2] = false;
                        v.castle[3] = false;
                    }
                    if !v.is_sane() {
                        continue;
                    }
                    let mut b = match Bitboard::from_fen_string(&v.to_fen()) {
                        Ok(b) => b,
                        Err(e) => return Err(viol("C12", "legal_fen_rejected", format!("{:?} -> {:?}", v.to_fen(), e))),
                    };
                    checked += 1;
                    let wc = v.in_check(true);
                    let bc = v.in_check(false);
                    if b.is_in_check(&Color::WHITE) != wc || b.is_in_check(&Color::BLACK) != bc || b.is_current_in_check() != (if *white { wc } else { bc }) || !b.is_valid() {
                        return Err(viol("C05", "check_flag_mismatch", format!("at {}: is_in_check(W)={} (ref {}), is_in_check(B)={} (ref {}), is_valid={}", v.to_fen(), b.is_in_check(&Color::WHITE), wc, b.is_in_check(&Color::BLACK), bc, b.is_valid())));
                    }
                    let got = uci_sorted(&b.generate_legal_moves());
                    let want = v.legal_uci();
                    if got != want {
                        let mated_confusion = got.is_empty() != want.is_empty();
                        return Err(viol(if mated_confusion { "C05" } else { "C01" }, if mated_confusion { "no_legal_moves_mismatch" } else { "legal_move_set_mismatch" }, format!("at {}: got {:?} want {:?}", v.to_fen(), got, want)));
                    }
                    if want.is_empty() {
                        self.res.bump(if wc || bc { "probe.grid_mate" } else { "probe.grid_stalemate" });
                    }
                    if wc || bc {
                        self.res.bump("probe.grid_check");
                    }
                }
                self.res.bump("op.king_grid");
                self.res.add("grid_positions_checked", checked);
                Ok(())
            }
            Op::EvalSym => {
                let has_moves = self.rf.has_legal_move();
                let e1 = inkayaku_engine_core::verif::static_eval(&self.bb, has_moves);
                let fl = self.rf.flip();
                let fb = Bitboard::from_fen_string(&fl.to_fen()).map_err(|e| viol("C12", "legal_fen_rejected", format!("{:?}", e)))?;
                let e2 = inkayaku_engine_core::verif::static_eval(&fb, has_moves);
                self.res.bump("op.eval_sym");
                // terminal positions: mate score depends on colour only through sign; stalemate 0
                if e1 != -e2 {
                    return Err(viol("C11", "evaluation_not_colour_symmetric", format!("eval({}) = {} but eval(flip = {}) = {}", self.rf.to_fen(), e1, fl.to_fen(), e2)).with("terminal", json!(!has_moves)));
                }
                if !has_moves {
                    let in_check = self.rf.in_check(self.rf.white_to_move);
                    let mover_view = if self.rf.white_to_move { e1 } else { -e1 };
                    if in_check && mover_view >= 0 {
                        return Err(viol("C11", "mate_score_wrong_sign", format!("mated side to move at {} gets {}", self.rf.to_fen(), mover_view)));
                    }
                    if !in_check && e1 != inkayaku_engine_core::verif::draw_score() {
                        return Err(viol("C11", "stalemate_not_draw", format!("stalemate {} evaluates to {}", self.rf.to_fen(), e1)));
                    }
                    self.res.bump("probe.terminal_eval");
                }
                Ok(())
            }
        }
    }

    fn variant(&mut self, i: u32) -> Result<(), V> {
        // single-component variants of the current position must hash differently
        let base = self.rf.clone();
        let h0 = self.bb.calculate_zobrist_hash();
        let mut variants: Vec<(String, Pos)> = Vec::new();
        for k in 0..4 {
            let mut v = base.clone();
            v.castle[k] = !v.castle[k];
            variants.push((format!("castle[{}]", k), v));
        }
        {
            let mut v = base.clone();
            v.white_to_move = !v.white_to_move;
            v.ep = None;
            let mut b2 = base.clone();
            b2.ep = None;
            // compare against the e.p.-free base so that exactly one component differs
            variants.push(("side".into(), v));
            if base.ep.is_some() {
                variants.push(("ep_removed".into(), b2));
            }
        }
        if let Some(e) = base.ep {
            let mut v = base.clone();
            let nf = (file_of(e) + 1 + (i % 7) as i32) % 8;
            v.ep = Some(sq(nf, rank_of(e)));
            variants.push(("ep_file".into(), v));
        } else {
            let mut v = base.clone();
            v.ep = Some(sq((i % 8) as i32, if base.white_to_move { 5 } else { 2 }));
            variants.push(("ep_added".into(), v));
        }
        let occupied: Vec<u8> = (0..64u8).filter(|&s| base.board[s as usize] != EMPTY && kind(base.board[s as usize]) != b'k').collect();
        if !occupied.is_empty() {
            let s = occupied[i as usize % occupied.len()];
            let mut v = base.clone();
            v.board[s as usize] = EMPTY;
            variants.push((format!("removed {}", sq_name(s)), v));
            let mut v = base.clone();
            let p = base.board[s as usize];
            if kind(p) != b'p' {
                v.board[s as usize] = if refchess::is_white(p) { p.to_ascii_lowercase() } else { p.to_ascii_uppercase() };
                variants.push((format!("recoloured {}", sq_name(s)), v));
            }
            let empties: Vec<u8> = (8..56u8).filter(|&t| base.board[t as usize] == EMPTY).collect();
            if !empties.is_empty() {
                let t = empties[(i / 7) as usize % empties.len()];
                let mut v = base.clone();
                v.board[t as usize] = p;
                v.board[s as usize] = EMPTY;
                variants.push((format!("moved {}->{}", sq_name(s), sq_name(t)), v));
            }
        }
        let (name, v) = &variants[i as usize % variants.len()];
        // the side-variant is compared against the e.p.-free base
        let h_base = if name == "side" && base.ep.is_some() {
            let mut b2 = base.clone();
            b2.ep = None;
            match Bitboard::from_fen_string(&b2.to_fen()) {
                Ok(b) => b.calculate_zobrist_hash(),
                Err(_) => return Ok(()),
            }
        } else {
            h0
        };
        let vb = match catch_unwind(|| Bitboard::from_fen_string(&v.to_fen())) {
            Ok(Ok(b)) => b,
            _ => return Ok(()), // variant not expressible; nothing to compare
        };
        let hv = vb.calculate_zobrist_hash();
        self.res.bump("op.variant");
        if hv == h_base {
            return Err(viol("C06", "single_component_change_same_hash", format!("{} vs variant [{}] {} both hash {:x}", base.to_fen(), name, v.to_fen(), hv)).with("component", json!(name.split(' ').next().unwrap_or(""))));
        }
        Ok(())
    }
}

pub enum SanMeaning {
    Unique(Mv),
    None,
    /// syntactically off-standard but harmless (over-disambiguation, wrong check mark,
    /// annotation glyphs, missing capture mark...): the property does not say
    Unspecified,
}

/// What does SAN-looking text denote in `p` under the standard? Conservative: only answers
/// `Unique`/`None` where the standard is unequivocal.
pub fn san_denotes(p: &Pos, s: &str) -> SanMeaning {
    let ms = p.legal_moves();
    // exact canonical match
    let exact: Vec<&Mv> = ms.iter().filter(|m| p.san(m) == s).collect();
    if exact.len() == 1 {
        return SanMeaning::Unique(*exact[0]);
    }
    // strip check marks / annotations and compare cores
    let core = s.trim_end_matches(['!', '?']).trim_end_matches(['+', '#']);
    let same_core: Vec<&Mv> = ms.iter().filter(|m| p.san(m).trim_end_matches(['+', '#']) == core).collect();
    if same_core.len() == 1 {
        return SanMeaning::Unspecified; // right move, wrong/missing suffix
    }
    // does any legal move share piece letter + target (over/under-disambiguated, capture mark off)?
    let bytes = core.as_bytes();
    let syntactic = !core.is_empty() && core.is_ascii() && (core.starts_with("O-O") || (bytes[0].is_ascii_lowercase() && (b'a'..=b'h').contains(&bytes[0])) || b"NBRQK".contains(&bytes[0]));
    if !syntactic {
        return SanMeaning::None;
    }
    if core == "O-O" || core == "O-O-O" {
        return SanMeaning::None; // castling not legal here (else exact/same_core matched)
    }
    // extract target square = last two chars before optional =X
    let body = core.split('=').next().unwrap_or(core);
    if body.len() < 2 {
        return SanMeaning::None;
    }
    let tgt = &body[body.len() - 2..];
    let tsq = match refchess::parse_sq(tgt) {
        Some(t) => t,
        None => return SanMeaning::None,
    };
    let piece = if b"NBRQK".contains(&bytes[0]) { bytes[0].to_ascii_lowercase() } else { b'p' };
    let candidates = ms.iter().filter(|m| m.to == tsq && kind(p.board[m.from as usize]) == piece).count();
    if candidates == 0 {
        SanMeaning::None
    } else {
        SanMeaning::Unspecified
    }
}

/// C12 oracle for arbitrary text: strict grammar decides accept/reject; accepted text must decode
/// to exactly what it says; nothing may panic.
pub fn check_fen_text(s: &str, res: &mut RunResult) -> Result<(), V> {
    let expect = Pos::from_fen(s);
    let s_owned = s.to_string();
    let got = catch_unwind(AssertUnwindSafe(|| Bitboard::from_fen_string(&s_owned)));
    let valid_flag = catch_unwind(AssertUnwindSafe(|| Fen::is_valid(&s_owned)));
    let got = match got {
        Ok(g) => g,
        Err(e) => {
            let site = if matches!(&expect, Err(e) if e == "clock-range") { "clock_wider_than_u32" } else { "other" };
            return Err(viol("C12", "fen_read_panic", format!("from_fen_string({:?}) panicked: {}", s, panic_message(&e))).with("site", json!(site)));
        }
    };
    if valid_flag.is_err() {
        return Err(viol("C12", "fen_read_panic", format!("Fen::is_valid({:?}) panicked", s)).with("site", json!("is_valid")));
    }
    match (expect, got) {
        (Err(e), Ok(_)) if e == "clock-range" => {
            res.bump("probe.fen_clock_out_of_range_accepted");
            Ok(())
        }
        (Err(e), Err(_)) => {
            if e == "clock-range" {
                res.bump("probe.fen_clock_out_of_range_rejected");
            }
            res.bump("fault.fen_rejected");
            Ok(())
        }
        (Err(e), Ok(b)) => {
            let shown = render(&b).map(|p| p.to_fen()).unwrap_or_default();
            Err(viol("C12", "malformed_fen_accepted", format!("{:?} breaks the grammar ({}) but was accepted as {}", s, e, shown)).with("reason", json!(e)))
        }
        (Ok(p), Err(e)) => {
            if p.full == 0 {
                res.bump("probe.fen_move_number_zero_rejected");
                return Ok(());
            }
            Err(viol("C12", "grammatical_fen_rejected", format!("{:?} -> {:?}", s, e)))
        }
        (Ok(p), Ok(b)) => {
            res.bump("probe.fen_mutant_accepted");
            let r = render(&b).map_err(|e| viol("C12", "board_inconsistent", format!("{:?}: {}", s, e)))?;
            let ep_specified = match p.ep {
                None => true,
                Some(e) => rank_of(e) == 2 || rank_of(e) == 5,
            };
            let mut want = p.clone();
            let mut have = r.clone();
            if !ep_specified {
                want.ep = None;
                have.ep = None;
            }
            if want != have {
                return Err(viol("C12", "fen_decode_mismatch", format!("{:?} decoded as {} (fields: {})", s, r.to_fen(), diff_fields(&have, &want))));
            }
            // the decoded board must be usable
            // ply_clock of an accepted position must be computable: move number 0 is the case the
            // property names; numbers above 2^31 overflow the u32 ply count and are left unspecified
            let b2 = AssertUnwindSafe(&b);
            if p.full <= (1u32 << 31) && catch_unwind(move || b2.ply_clock()).is_err() {
                return Err(viol("C12", "accepted_fen_unusable_panic", format!("ply_clock() panics after from_fen_string({:?})", s)).with("site", json!(if p.full == 0 { "ply_clock_move_number_zero" } else { "ply_clock" })));
            }
            let b3 = AssertUnwindSafe(&b);
            match catch_unwind(move || Fen::from(*b3).fen) {
                Err(_) => return Err(viol("C12", "accepted_fen_unusable_panic", format!("Fen::from panics after from_fen_string({:?})", s)).with("site", json!("fen_write"))),
                Ok(text) => {
                    if ep_specified && p.ep.map_or(true, |e| e != 56) && text != p.to_fen() {
                        return Err(viol("C12", "fen_write_mismatch", format!("read {:?}, wrote {:?}, canonical {:?}", s, text, p.to_fen())));
                    }
                }
            }
            Ok(())
        }
    }
}

pub fn exec_plan(plan: &BoardPlan) -> RunResult {
    let focus = plan.focus.clone();
    let mut sim = match BoardSim::new(&focus, &plan.start_fen) {
        Ok(s) => s,
        Err(v) => {
            let mut r = RunResult::default();
            set_violation(&mut r, &focus, v);
            return r;
        }
    };
    sim.shape.write_str(&plan.start_fen);
    let first = catch_unwind(AssertUnwindSafe(|| sim.cross_check("C12", "initial decode")));
    let mut outcome: Result<(), V> = match first {
        Ok(r) => r,
        Err(e) => Err(viol("C12", "panic", format!("initial cross-check panicked: {}", panic_message(&e)))),
    };
    if outcome.is_ok() {
        for (i, op) in plan.ops.iter().enumerate() {
            let blame = op_property(op);
            let r = catch_unwind(AssertUnwindSafe(|| sim.step(op)));
            match r {
                Ok(Ok(())) => {}
                Ok(Err(v)) => {
                    outcome = Err(v.with("op_index", json!(i)));
                    break;
                }
                Err(e) => {
                    let msg = panic_message(&e);
                    outcome = Err(viol(blame, "panic", format!("op #{} {:?} panicked at {}: {}", i, op, sim.rf.to_fen(), msg)).with("op", json!(op_name(op))).with("op_index", json!(i)));
                    break;
                }
            }
            sim.shape.write_str(op_name(op));
        }
    }
    let mut res = std::mem::take(&mut sim.res);
    res.hash = {
        let mut h = sim.log;
        h.write_str(&sim.rf.to_fen());
        h.write_u64(res.steps);
        h.0
    };
    res.shape = sim.shape.0;
    res.nontrivial = res.counters.get("op.play").copied().unwrap_or(0) + res.counters.get("op.play_uci").copied().unwrap_or(0) >= 3 || res.steps >= 10;
    let _ = sim.focus;
    if let Err(v) = outcome {
        // op_index is bookkeeping, not part of the trigger identity
        let mut v = v;
        v.trigger.remove("op_index");
        set_violation(&mut res, &focus, v);
    }
    res
}

fn set_violation(res: &mut RunResult, focus: &str, v: V) {
    if v.property == focus || focus == "ALL" {
        res.violation = Some(v);
    } else {
        res.foreign = Some(v);
    }
}

pub fn op_name(op: &Op) -> &'static str {
    match op {
        Op::Play(_) => "Play",
        Op::PlayUci(_) => "PlayUci",
        Op::ProbeAll => "ProbeAll",
        Op::ProbeQuiescent => "ProbeQuiescent",
        Op::TakeBack(_) => "TakeBack",
        Op::FindUci(_) => "FindUci",
        Op::MakeUci(_) => "MakeUci",
        Op::UciToPgn(_) => "UciToPgn",
        Op::MakeAll { .. } => "MakeAll",
        Op::SanAll => "SanAll",
        Op::SanBad(..) => "SanBad",
        Op::Perft(_) => "Perft",
        Op::Checkpoint(_) => "Checkpoint",
        Op::Corrupt(_) => "Corrupt",
        Op::JumpTo(_) => "JumpTo",
        Op::Transpose(..) => "Transpose",
        Op::Variant(_) => "Variant",
        Op::SanLogReplay => "SanLogReplay",
        Op::EvalSym => "EvalSym",
        Op::KingGrid(_) => "KingGrid",
    }
}

fn op_property(op: &Op) -> &'static str {
    match op {
        Op::Play(_) => "C02",
        Op::PlayUci(_) | Op::FindUci(_) | Op::MakeUci(_) | Op::MakeAll { .. } => "C13",
        Op::UciToPgn(_) | Op::SanAll | Op::SanBad(..) | Op::SanLogReplay => "C14",
        Op::ProbeAll | Op::TakeBack(_) | Op::Transpose(..) => "C03",
        Op::ProbeQuiescent | Op::Perft(_) => "C01",
        Op::Checkpoint(_) | Op::Corrupt(_) | Op::JumpTo(_) => "C12",
        Op::Variant(_) => "C06",
        Op::EvalSym => "C11",
        Op::KingGrid(_) => "C05",
    }
}

/// Plan shrinking candidates: drop operations (chunks, then singles), simplify the start.
pub fn shrink_candidates(plan: &BoardPlan) -> Vec<BoardPlan> {
    let mut out = Vec::new();
    let n = plan.ops.len();
    let mut chunk = n / 2;
    while chunk >= 1 {
        let mut start = 0;
        while start < n {
            let mut p = plan.clone();
            let end = (start + chunk).min(n);
            p.ops.drain(start..end);
            out.push(p);
            start += chunk;
        }
        if chunk == 1 {
            break;
        }
        chunk /= 2;
    }
    if plan.start_fen != refchess::START_FEN {
        let mut p = plan.clone();
        p.start_fen = refchess::START_FEN.to_string();
        out.push(p);
    }
    // simplify indices
    for (i, op) in plan.ops.iter().enumerate() {
        let simpler = match op {
            Op::Play(k) if *k > 0 => Some(Op::Play(0)),
            Op::PlayUci(k) => Some(Op::Play(*k)),
            Op::TakeBack(k) if *k > 1 => Some(Op::TakeBack(1)),
            _ => None,
        };
        if let Some(s) = simpler {
            let mut p = plan.clone();
            p.ops[i] = s;
            out.push(p);
        }
    }
    out
}

#[allow(dead_code)]
fn _unused(_: Square) {}

//! TableSim — `HashTable<ZobristHash, u64>` against a reference FIFO map (C18), and
//! RepSim — `ZobristHistory::set / count_repetitions` against reference occurrence counting (C10c).

use std::panic::{catch_unwind, AssertUnwindSafe};

use inkayaku_engine_core::verif::{RepetitionHandle, TableHandle};
use serde::{Deserialize, Serialize};
use serde_json::json;

use crate::common::{panic_message, RunResult, Violation};
use crate::rng::{Fnv, Rng};

#[derive(Clone, Debug, Serialize, Deserialize, PartialEq)]
pub enum TOp {
    Put(u64, u64),
    Get(u64),
    Clear,
    Len,
}

#[derive(Clone, Debug, Serialize, Deserialize, PartialEq)]
pub struct TablePlan {
    pub capacity: usize,
    pub ops: Vec<TOp>,
    /// bulk run: fill a table of `capacity` with capacity + big_extra distinct keys (capacities far
    /// beyond what the operation-by-operation model can follow, e.g. 2^24 where f32 stops counting)
    #[serde(default)]
    pub big_extra: u64,
}

pub fn gen_table_plan(seed: u64, thorough: bool) -> TablePlan {
    let mut rng = Rng::new(seed);
    let _ = thorough;
    if seed % 100_000 == 3 {
        // about 650 MB and 1 s each: a handful of runs in the quick tier, about a hundred in the thorough tier
        return TablePlan { capacity: (1 << 24) + rng.usize_below(3), ops: vec![], big_extra: 1 + rng.below(4) };
    }
    let capacity = *rng.pick(&[1usize, 1, 2, 2, 3, 4, 5, 8, 16]);
    let universe = *rng.pick(&[2u64, 3, 5, 8, 13, 40]);
    let n = rng.range(10, if thorough { 400 } else { 120 }) as usize;
    // keys: small universe, sometimes spread over the 64-bit range (the table uses an identity hasher)
    let spread = rng.chance(1, 3);
    // sometimes the extreme hash values are in play (0, MAX, MAX-1, 2^63, 2^63-1): whatever a table
    // uses as "empty" or "free" marker must not be confused with a stored key
    let extremes = rng.chance(1, 3);
    let key = |k: u64| {
        if extremes && k < 5 {
            [u64::MAX, 0, u64::MAX - 1, 1 << 63, (1 << 63) - 1][k as usize]
        } else if spread {
            k.wrapping_mul(0x9E37_79B9_7F4A_7C15) ^ (k << 60)
        } else {
            k
        }
    };
    let clear_w = *rng.pick(&[0u32, 1, 3]);
    let mut next_value = 1u64;
    let mut ops = Vec::with_capacity(n);
    for _ in 0..n {
        match rng.weighted(&[50, 35, clear_w, 8]) {
            0 => {
                ops.push(TOp::Put(key(rng.below(universe)), next_value));
                next_value += 1; // every written value is unique, so each read is attributable to one write
            }
            1 => ops.push(TOp::Get(key(rng.below(universe + 1)))),
            2 => ops.push(TOp::Clear),
            _ => ops.push(TOp::Len),
        }
    }
    TablePlan { capacity, ops, big_extra: 0 }
}

pub fn exec_table_plan(plan: &TablePlan) -> RunResult {
    let mut res = RunResult::default();
    let mut log = Fnv::default();
    let mut shape = Fnv::default();
    let r = catch_unwind(AssertUnwindSafe(|| run_table(plan, &mut res, &mut log, &mut shape)));
    res.hash = log.0;
    res.shape = shape.0;
    res.nontrivial = res.steps >= 5;
    match r {
        Ok(Ok(())) => {}
        Ok(Err(v)) => res.violation = Some(v),
        Err(e) => res.violation = Some(Violation::new("C18", "panic", format!("table operation panicked: {}", panic_message(&e)))),
    }
    res
}

fn run_big(plan: &TablePlan, res: &mut RunResult, log: &mut Fnv) -> Result<(), Violation> {
    let cap = plan.capacity.max(1);
    let mut t = TableHandle::new(cap);
    let n = cap as u64 + plan.big_extra;
    let k0 = 0x1000_0000_0000u64;
    for i in 0..n {
        t.put(k0 + i, i);
        if i + 1 == cap as u64 && t.len() != cap {
            return Err(Violation::new("C18", "size_mismatch", format!("capacity {}: after {} distinct keys len() = {}", cap, cap, t.len())));
        }
    }
    res.steps = n;
    res.bump("probe.bulk_fill_beyond_2_pow_24");
    res.add("probe.eviction", plan.big_extra);
    log.write_u64(t.len() as u64);
    if t.len() != cap {
        return Err(Violation::new("C18", "capacity_exceeded", format!("capacity {}: after {} distinct keys the table holds {} entries", cap, n, t.len())).with("over_capacity", json!(t.len() > cap)));
    }
    for i in 0..plan.big_extra {
        if let Some(v) = t.get(k0 + i) {
            return Err(Violation::new("C18", "evicted_key_still_present", format!("capacity {}: key #{} of {} is still present (value {})", cap, i, n, v)));
        }
    }
    for i in [plan.big_extra, plan.big_extra + 1, n / 2, n - 2, n - 1] {
        if t.get(k0 + i) != Some(i) {
            return Err(Violation::new("C18", "lookup_mismatch", format!("capacity {}: get(key #{}) = {:?} expected Some({})", cap, i, t.get(k0 + i), i)));
        }
    }
    if (t.load_factor() - 1.0).abs() > 1e-6 {
        return Err(Violation::new("C18", "fill_level_mismatch", format!("capacity {}: full table reports load_factor() = {}", cap, t.load_factor())));
    }
    Ok(())
}

fn run_table(plan: &TablePlan, res: &mut RunResult, log: &mut Fnv, shape: &mut Fnv) -> Result<(), Violation> {
    if plan.big_extra > 0 {
        shape.write_u64(plan.capacity as u64);
        return run_big(plan, res, log);
    }
    let cap = plan.capacity.max(1);
    let mut t = TableHandle::new(cap);
    // reference: insertion-ordered vector of (key, value); re-inserting a present key keeps its age
    let mut model: Vec<(u64, u64)> = Vec::new();
    let mut evicted: Vec<u64> = Vec::new();
    shape.write_u64(cap as u64);
    let full_check = |t: &TableHandle, model: &Vec<(u64, u64)>, evicted: &Vec<u64>, ctx: &str| -> Result<(), Violation> {
        if t.len() != model.len() {
            return Err(Violation::new("C18", "size_mismatch", format!("after {}: len() = {} but {} entries are live (capacity {})", ctx, t.len(), model.len(), cap)).with("over_capacity", json!(t.len() > cap)));
        }
        if t.len() > cap {
            return Err(Violation::new("C18", "capacity_exceeded", format!("after {}: {} entries, capacity {}", ctx, t.len(), cap)));
        }
        let lf = t.load_factor();
        let want = model.len() as f32 / cap as f32;
        if (lf - want).abs() > 1e-6 {
            return Err(Violation::new("C18", "fill_level_mismatch", format!("after {}: load_factor() = {} expected {}", ctx, lf, want)));
        }
        for (k, v) in model {
            if t.get(*k) != Some(*v) {
                return Err(Violation::new("C18", "lookup_mismatch", format!("after {}: get({}) = {:?} expected Some({})", ctx, k, t.get(*k), v)));
            }
        }
        for k in evicted {
            if !model.iter().any(|(mk, _)| mk == k) && t.get(*k).is_some() {
                return Err(Violation::new("C18", "evicted_key_still_present", format!("after {}: get({}) = {:?} but the key was evicted/cleared", ctx, k, t.get(*k))));
            }
        }
        Ok(())
    };
    for (i, op) in plan.ops.iter().enumerate() {
        res.steps += 1;
        match op {
            TOp::Put(k, v) => {
                t.put(*k, *v);
                if let Some(e) = model.iter_mut().find(|(mk, _)| mk == k) {
                    e.1 = *v;
                    res.bump("probe.reinsert_present_key");
                } else {
                    if evicted.contains(k) {
                        res.bump("probe.reinsert_evicted_key");
                    }
                    model.push((*k, *v));
                    if model.len() > cap {
                        let (old, _) = model.remove(0);
                        evicted.push(old);
                        res.bump("probe.eviction");
                    }
                }
                log.write_u64(*k);
                shape.write_str("P");
                full_check(&t, &model, &evicted, &format!("op #{} put({}, {})", i, k, v))?;
            }
            TOp::Get(k) => {
                let want = model.iter().find(|(mk, _)| mk == k).map(|e| e.1);
                let got = t.get(*k);
                if got != want {
                    return Err(Violation::new("C18", "lookup_mismatch", format!("op #{}: get({}) = {:?} expected {:?}", i, k, got, want)));
                }
                shape.write_str("G");
            }
            TOp::Clear => {
                t.clear();
                for (k, _) in model.drain(..) {
                    evicted.push(k);
                }
                res.bump("probe.clear");
                shape.write_str("C");
                full_check(&t, &model, &evicted, &format!("op #{} clear", i))?;
            }
            TOp::Len => {
                full_check(&t, &model, &evicted, &format!("op #{} len", i))?;
                shape.write_str("L");
            }
        }
    }
    Ok(())
}

pub fn shrink_table(plan: &TablePlan) -> Vec<TablePlan> {
    let mut out = Vec::new();
    let n = plan.ops.len();
    let mut chunk = n / 2;
    while chunk >= 1 {
        let mut start = 0;
        while start < n {
            let mut p = plan.clone();
            p.ops.drain(start..(start + chunk).min(n));
            out.push(p);
            start += chunk;
        }
        if chunk == 1 {
            break;
        }
        chunk /= 2;
    }
    out
}

// ------------------------------------------------------------------ repetition counter

#[derive(Clone, Debug, Serialize, Deserialize, PartialEq)]
pub struct RepPlan {
    /// index (ply clock) of the first position
    pub start_index: u16,
    /// half-move clock of the first position
    pub start_half: u16,
    /// (position id, the move leading here was irreversible)
    pub seq: Vec<(u8, bool)>,
}

pub fn gen_rep_plan(seed: u64, thorough: bool) -> RepPlan {
    let mut rng = Rng::new(seed);
    let start_index = *rng.pick(&[0u16, 0, 1, 2, 3, 4, 5, 17, 100, 4000, 4990]);
    let start_half = (*rng.pick(&[0u16, 0, 1, 3, 4, 10, 60, 100, 127, 140])).min(start_index);
    let alphabet = *rng.pick(&[2u64, 3, 4, 6, 40]);
    // windows longer than 128 plies (half-move clocks up to 150+ are in the property's range)
    let n = rng.range(4, if thorough { 200 } else { 90 }) as usize;
    let irr = *rng.pick(&[0u64, 0, 1, 2, 4]);
    let mut seq: Vec<(u8, bool)> = Vec::new();
    for i in 0..n {
        // a real game cannot return to the position of two plies ago; avoid it like the rules do
        let mut id = rng.below(alphabet) as u8;
        if i >= 2 && seq[i - 2].0 == id {
            id = ((id as u64 + 1) % alphabet.max(2)) as u8;
            if i >= 2 && seq[i - 2].0 == id {
                id = (id + 1) % (alphabet as u8 + 1);
            }
        }
        seq.push((id, i > 0 && rng.below(16) < irr));
    }
    RepPlan { start_index, start_half, seq }
}

pub fn exec_rep_plan(plan: &RepPlan) -> RunResult {
    let mut res = RunResult::default();
    let mut log = Fnv::default();
    let r = catch_unwind(AssertUnwindSafe(|| {
        let mut h = RepetitionHandle::default();
        let mut half = plan.start_half as u32;
        // (hash, half-move clock) per index
        let mut hist: Vec<(u64, u32)> = Vec::new();
        for (i, (id, irreversible)) in plan.seq.iter().enumerate() {
            let idx = plan.start_index as usize + i;
            if i > 0 {
                half = if *irreversible { 0 } else { half + 1 };
            }
            // same id at different parity is a different position (side to move differs)
            let hash = (0x1234_5678_9abc_def1u64.wrapping_mul(*id as u64 + 3)) ^ if idx % 2 == 1 { 0xaa56_513a_bd96_ba3 } else { 0 };
            h.set(idx as u16, hash);
            hist.push((hash, half));
            let got = h.count_repetitions(idx as u16, half.min(u16::MAX as u32) as u16);
            // reference: occurrences within the last `half` plies (never before the first recorded position)
            let window = (half as usize).min(i);
            let want = hist[i - window..=i].iter().filter(|(x, _)| *x == hash).count();
            res.steps += 1;
            log.write_u64(got as u64);
            if want >= 3 {
                res.bump("probe.threefold_in_history");
            }
            if (got >= 3) != (want >= 3) {
                return Err(Violation::new("C10", "repetition_count_mismatch", format!("index {} (half-move clock {}): count_repetitions says {} but the position occurred {} times within the window; plan {:?}", idx, half, got, want, plan)));
            }
        }
        Ok(())
    }));
    res.hash = log.0;
    res.shape = plan.seq.len() as u64;
    res.nontrivial = res.steps >= 4;
    match r {
        Ok(Ok(())) => {}
        Ok(Err(v)) => res.violation = Some(v),
        Err(e) => res.violation = Some(Violation::new("C10", "panic", format!("repetition counter panicked: {}", panic_message(&e)))),
    }
    res
}

pub fn shrink_rep(plan: &RepPlan) -> Vec<RepPlan> {
    let mut out = Vec::new();
    if plan.seq.len() > 1 {
        let mut p = plan.clone();
        p.seq.pop();
        out.push(p);
        let mut p = plan.clone();
        p.seq.truncate(plan.seq.len() / 2);
        out.push(p);
    }
    if plan.start_index != 0 {
        let mut p = plan.clone();
        p.start_index = 0;
        p.start_half = 0;
        out.push(p);
    }
    out
}

mod appsim;
mod boardsim;
mod checks;
mod common;
mod enginesim;
mod linesim;
mod streamsim;
mod tablesim;
mod sched;
mod uciref;
mod pool;
mod refchess;
mod rng;
mod runner;

fn main() {
    let args: Vec<String> = std::env::args().collect();
    let code = runner::main(&args[1..]);
    std::process::exit(code);
}

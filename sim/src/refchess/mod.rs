//! Independent reference chess model, written from the FIDE laws.
//! 8x8 mailbox, rays walked square by square, copy-make legality test.
//! Shares no code and no data layout with the repository under test.

pub mod search;

pub const EMPTY: u8 = 0;

#[derive(Clone, PartialEq, Eq, Hash, Debug)]
pub struct Pos {
    /// sq = file + 8*rank, file 0 = 'a', rank 0 = '1'. Piece = ASCII letter, upper case white.
    pub board: [u8; 64],
    pub white_to_move: bool,
    /// K Q k q
    pub castle: [bool; 4],
    pub ep: Option<u8>,
    pub half: u32,
    pub full: u32,
}

#[derive(Clone, Copy, PartialEq, Eq, Hash, Debug, PartialOrd, Ord)]
pub struct Mv {
    pub from: u8,
    pub to: u8,
    /// lower-case piece letter
    pub promo: Option<u8>,
}

pub fn sq(file: i32, rank: i32) -> u8 {
    (file + 8 * rank) as u8
}
pub fn file_of(s: u8) -> i32 {
    (s % 8) as i32
}
pub fn rank_of(s: u8) -> i32 {
    (s / 8) as i32
}
pub fn sq_name(s: u8) -> String {
    let mut r = String::new();
    r.push((b'a' + s % 8) as char);
    r.push((b'1' + s / 8) as char);
    r
}
pub fn parse_sq(s: &str) -> Option<u8> {
    let b = s.as_bytes();
    if b.len() != 2 || !(b'a'..=b'h').contains(&b[0]) || !(b'1'..=b'8').contains(&b[1]) {
        return None;
    }
    Some((b[0] - b'a') + 8 * (b[1] - b'1'))
}
pub fn is_white(p: u8) -> bool {
    p.is_ascii_uppercase()
}
pub fn kind(p: u8) -> u8 {
    p.to_ascii_lowercase()
}

impl Mv {
    pub fn uci(&self) -> String {
        let mut s = sq_name(self.from);
        s.push_str(&sq_name(self.to));
        if let Some(p) = self.promo {
            s.push(p as char);
        }
        s
    }
    pub fn parse(s: &str) -> Option<Mv> {
        if !s.is_ascii() || (s.len() != 4 && s.len() != 5) {
            return None;
        }
        let from = parse_sq(&s[0..2])?;
        let to = parse_sq(&s[2..4])?;
        let promo = if s.len() == 5 {
            let c = s.as_bytes()[4];
            if !b"qrbn".contains(&c) {
                return None;
            }
            Some(c)
        } else {
            None
        };
        Some(Mv { from, to, promo })
    }
}

const KNIGHT_D: [(i32, i32); 8] = [(1, 2), (2, 1), (2, -1), (1, -2), (-1, -2), (-2, -1), (-2, 1), (-1, 2)];
const KING_D: [(i32, i32); 8] = [(1, 0), (1, 1), (0, 1), (-1, 1), (-1, 0), (-1, -1), (0, -1), (1, -1)];
const ROOK_D: [(i32, i32); 4] = [(1, 0), (0, 1), (-1, 0), (0, -1)];
const BISHOP_D: [(i32, i32); 4] = [(1, 1), (-1, 1), (-1, -1), (1, -1)];

fn on_board(f: i32, r: i32) -> bool {
    (0..8).contains(&f) && (0..8).contains(&r)
}

pub const START_FEN: &str = "rnbqkbnr/pppppppp/8/8/8/8/PPPPPPPP/RNBQKBNR w KQkq - 0 1";

impl Pos {
    pub fn start() -> Pos {
        Pos::from_fen(START_FEN).unwrap()
    }

    pub fn at(&self, f: i32, r: i32) -> u8 {
        self.board[sq(f, r) as usize]
    }

    pub fn king_sq(&self, white: bool) -> Option<u8> {
        let k = if white { b'K' } else { b'k' };
        (0..64u8).find(|&s| self.board[s as usize] == k)
    }

    /// Is square `s` attacked by a piece of colour `by_white`?
    pub fn attacked(&self, s: u8, by_white: bool) -> bool {
        let f = file_of(s);
        let r = rank_of(s);
        // pawns: a white pawn attacks diagonally upward, so it stands one rank below the target
        let (pawn, pr) = if by_white { (b'P', r - 1) } else { (b'p', r + 1) };
        for df in [-1, 1] {
            if on_board(f + df, pr) && self.at(f + df, pr) == pawn {
                return true;
            }
        }
        let knight = if by_white { b'N' } else { b'n' };
        for (df, dr) in KNIGHT_D {
            if on_board(f + df, r + dr) && self.at(f + df, r + dr) == knight {
                return true;
            }
        }
        let king = if by_white { b'K' } else { b'k' };
        for (df, dr) in KING_D {
            if on_board(f + df, r + dr) && self.at(f + df, r + dr) == king {
                return true;
            }
        }
        let (rook, bishop, queen) = if by_white { (b'R', b'B', b'Q') } else { (b'r', b'b', b'q') };
        for (df, dr) in ROOK_D {
            let (mut cf, mut cr) = (f + df, r + dr);
            while on_board(cf, cr) {
                let p = self.at(cf, cr);
                if p != EMPTY {
                    if p == rook || p == queen {
                        return true;
                    }
                    break;
                }
                cf += df;
                cr += dr;
            }
        }
        for (df, dr) in BISHOP_D {
            let (mut cf, mut cr) = (f + df, r + dr);
            while on_board(cf, cr) {
                let p = self.at(cf, cr);
                if p != EMPTY {
                    if p == bishop || p == queen {
                        return true;
                    }
                    break;
                }
                cf += df;
                cr += dr;
            }
        }
        false
    }

    pub fn in_check(&self, white: bool) -> bool {
        match self.king_sq(white) {
            Some(k) => self.attacked(k, !white),
            None => false,
        }
    }

    pub fn pseudo_moves(&self) -> Vec<Mv> {
        let mut out = Vec::with_capacity(48);
        let w = self.white_to_move;
        for s in 0..64u8 {
            let p = self.board[s as usize];
            if p == EMPTY || is_white(p) != w {
                continue;
            }
            let f = file_of(s);
            let r = rank_of(s);
            match kind(p) {
                b'p' => {
                    let dir = if w { 1 } else { -1 };
                    let start_rank = if w { 1 } else { 6 };
                    let last_rank = if w { 7 } else { 0 };
                    let push = |out: &mut Vec<Mv>, to: u8| {
                        if rank_of(to) == last_rank {
                            for pr in [b'q', b'r', b'b', b'n'] {
                                out.push(Mv { from: s, to, promo: Some(pr) });
                            }
                        } else {
                            out.push(Mv { from: s, to, promo: None });
                        }
                    };
                    if on_board(f, r + dir) && self.at(f, r + dir) == EMPTY {
                        push(&mut out, sq(f, r + dir));
                        if r == start_rank && self.at(f, r + 2 * dir) == EMPTY {
                            out.push(Mv { from: s, to: sq(f, r + 2 * dir), promo: None });
                        }
                    }
                    for df in [-1, 1] {
                        if !on_board(f + df, r + dir) {
                            continue;
                        }
                        let t = sq(f + df, r + dir);
                        let q = self.board[t as usize];
                        if q != EMPTY && is_white(q) != w {
                            push(&mut out, t);
                        } else if q == EMPTY && self.ep == Some(t) {
                            // en passant: the pawn to be taken stands beside us
                            let victim = self.at(f + df, r);
                            let want = if w { b'p' } else { b'P' };
                            let ep_rank_ok = if w { r == 4 } else { r == 3 };
                            if victim == want && ep_rank_ok {
                                out.push(Mv { from: s, to: t, promo: None });
                            }
                        }
                    }
                }
                b'n' => {
                    for (df, dr) in KNIGHT_D {
                        self.step(&mut out, s, f + df, r + dr, w);
                    }
                }
                b'k' => {
                    for (df, dr) in KING_D {
                        self.step(&mut out, s, f + df, r + dr, w);
                    }
                    self.castling(&mut out, s, w);
                }
                b'r' => self.slide(&mut out, s, &ROOK_D, w),
                b'b' => self.slide(&mut out, s, &BISHOP_D, w),
                b'q' => {
                    self.slide(&mut out, s, &ROOK_D, w);
                    self.slide(&mut out, s, &BISHOP_D, w);
                }
                _ => {}
            }
        }
        out
    }

    fn step(&self, out: &mut Vec<Mv>, from: u8, f: i32, r: i32, w: bool) {
        if !on_board(f, r) {
            return;
        }
        let q = self.at(f, r);
        if q == EMPTY || is_white(q) != w {
            out.push(Mv { from, to: sq(f, r), promo: None });
        }
    }

    fn slide(&self, out: &mut Vec<Mv>, from: u8, dirs: &[(i32, i32)], w: bool) {
        let f = file_of(from);
        let r = rank_of(from);
        for &(df, dr) in dirs {
            let (mut cf, mut cr) = (f + df, r + dr);
            while on_board(cf, cr) {
                let q = self.at(cf, cr);
                if q == EMPTY {
                    out.push(Mv { from, to: sq(cf, cr), promo: None });
                } else {
                    if is_white(q) != w {
                        out.push(Mv { from, to: sq(cf, cr), promo: None });
                    }
                    break;
                }
                cf += df;
                cr += dr;
            }
        }
    }

    fn castling(&self, out: &mut Vec<Mv>, ksq: u8, w: bool) {
        let r = if w { 0 } else { 7 };
        if ksq != sq(4, r) {
            return;
        }
        let rook = if w { b'R' } else { b'r' };
        let (ks, qs) = if w { (self.castle[0], self.castle[1]) } else { (self.castle[2], self.castle[3]) };
        if !ks && !qs {
            return;
        }
        if self.attacked(ksq, !w) {
            return;
        }
        if ks
            && self.at(7, r) == rook
            && self.at(5, r) == EMPTY
            && self.at(6, r) == EMPTY
            && !self.attacked(sq(5, r), !w)
            && !self.attacked(sq(6, r), !w)
        {
            out.push(Mv { from: ksq, to: sq(6, r), promo: None });
        }
        if qs
            && self.at(0, r) == rook
            && self.at(1, r) == EMPTY
            && self.at(2, r) == EMPTY
            && self.at(3, r) == EMPTY
            && !self.attacked(sq(3, r), !w)
            && !self.attacked(sq(2, r), !w)
        {
            out.push(Mv { from: ksq, to: sq(2, r), promo: None });
        }
    }

    /// Apply a pseudo-legal move and return the successor (all six FEN fields).
    pub fn apply(&self, m: &Mv) -> Pos {
        let mut n = self.clone();
        let w = self.white_to_move;
        let p = self.board[m.from as usize];
        let captured = self.board[m.to as usize];
        let mut is_capture = captured != EMPTY;
        n.board[m.from as usize] = EMPTY;
        n.board[m.to as usize] = p;
        n.ep = None;
        if kind(p) == b'p' {
            if Some(m.to) == self.ep && file_of(m.from) != file_of(m.to) && captured == EMPTY {
                // en passant: remove the pawn that just made the double step
                let victim = sq(file_of(m.to), rank_of(m.from));
                n.board[victim as usize] = EMPTY;
                is_capture = true;
            }
            if (rank_of(m.to) - rank_of(m.from)).abs() == 2 {
                n.ep = Some(sq(file_of(m.from), (rank_of(m.from) + rank_of(m.to)) / 2));
            }
            if let Some(pr) = m.promo {
                n.board[m.to as usize] = if w { pr.to_ascii_uppercase() } else { pr };
            }
        }
        if kind(p) == b'k' && (file_of(m.to) - file_of(m.from)).abs() == 2 {
            let r = rank_of(m.from);
            if file_of(m.to) == 6 {
                n.board[sq(5, r) as usize] = n.board[sq(7, r) as usize];
                n.board[sq(7, r) as usize] = EMPTY;
            } else {
                n.board[sq(3, r) as usize] = n.board[sq(0, r) as usize];
                n.board[sq(0, r) as usize] = EMPTY;
            }
        }
        // castling rights: lost when the king or the rook leaves, or the rook is taken at home
        for s in [m.from, m.to] {
            match s {
                4 => {
                    n.castle[0] = false;
                    n.castle[1] = false;
                }
                60 => {
                    n.castle[2] = false;
                    n.castle[3] = false;
                }
                7 => n.castle[0] = false,
                0 => n.castle[1] = false,
                63 => n.castle[2] = false,
                56 => n.castle[3] = false,
                _ => {}
            }
        }
        if kind(p) == b'p' || is_capture {
            n.half = 0;
        } else {
            n.half = self.half + 1;
        }
        if !w {
            n.full = self.full + 1;
        }
        n.white_to_move = !w;
        n
    }

    pub fn is_capture(&self, m: &Mv) -> bool {
        let p = self.board[m.from as usize];
        self.board[m.to as usize] != EMPTY || (kind(p) == b'p' && Some(m.to) == self.ep && file_of(m.from) != file_of(m.to))
    }

    pub fn legal_moves(&self) -> Vec<Mv> {
        let w = self.white_to_move;
        self.pseudo_moves().into_iter().filter(|m| !self.apply(m).in_check(w)).collect()
    }

    pub fn legal_uci(&self) -> Vec<String> {
        let mut v: Vec<String> = self.legal_moves().iter().map(|m| m.uci()).collect();
        v.sort();
        v
    }

    pub fn has_legal_move(&self) -> bool {
        let w = self.white_to_move;
        self.pseudo_moves().iter().any(|m| !self.apply(m).in_check(w))
    }

    pub fn is_mate(&self) -> bool {
        self.in_check(self.white_to_move) && !self.has_legal_move()
    }
    pub fn is_stalemate(&self) -> bool {
        !self.in_check(self.white_to_move) && !self.has_legal_move()
    }

    pub fn perft(&self, depth: u32) -> u64 {
        if depth == 0 {
            return 1;
        }
        let ms = self.legal_moves();
        if depth == 1 {
            return ms.len() as u64;
        }
        ms.iter().map(|m| self.apply(m).perft(depth - 1)).sum()
    }

    // ---------------------------------------------------------------- FEN

    pub fn placement(&self) -> String {
        let mut s = String::new();
        for r in (0..8).rev() {
            let mut empty = 0;
            for f in 0..8 {
                let p = self.at(f, r);
                if p == EMPTY {
                    empty += 1;
                } else {
                    if empty > 0 {
                        s.push((b'0' + empty) as char);
                        empty = 0;
                    }
                    s.push(p as char);
                }
            }
            if empty > 0 {
                s.push((b'0' + empty) as char);
            }
            if r > 0 {
                s.push('/');
            }
        }
        s
    }

    pub fn castle_str(&self) -> String {
        let mut s = String::new();
        for (i, c) in "KQkq".chars().enumerate() {
            if self.castle[i] {
                s.push(c);
            }
        }
        if s.is_empty() {
            s.push('-');
        }
        s
    }

    pub fn ep_str(&self) -> String {
        self.ep.map_or("-".to_string(), sq_name)
    }

    pub fn to_fen(&self) -> String {
        format!("{} {} {} {} {} {}", self.placement(), if self.white_to_move { 'w' } else { 'b' }, self.castle_str(), self.ep_str(), self.half, self.full)
    }

    pub fn to_fen4(&self) -> String {
        format!("{} {} {} {}", self.placement(), if self.white_to_move { 'w' } else { 'b' }, self.castle_str(), self.ep_str())
    }

    /// Strict FEN reader: the grammar of property C12 (six or four fields, single blanks,
    /// eight ranks each summing to eight with no adjacent digits, side w|b, castling a non-empty
    /// in-order subset of KQkq or '-', e.p. [a-h][1-8] or '-', clocks decimal digits).
    /// Clocks that do not fit u32 are reported as `Err("clock-range")`.
    pub fn from_fen(s: &str) -> Result<Pos, String> {
        let fields: Vec<&str> = s.split(' ').collect();
        if fields.len() != 6 && fields.len() != 4 {
            return Err(format!("field count {}", fields.len()));
        }
        let ranks: Vec<&str> = fields[0].split('/').collect();
        if ranks.len() != 8 {
            return Err("rank count".into());
        }
        let mut board = [EMPTY; 64];
        for (i, rk) in ranks.iter().enumerate() {
            let r = 7 - i as i32;
            let mut f = 0i32;
            let mut prev_digit = false;
            if rk.is_empty() {
                return Err("empty rank".into());
            }
            for c in rk.bytes() {
                if (b'1'..=b'8').contains(&c) {
                    if prev_digit {
                        return Err("adjacent digits".into());
                    }
                    prev_digit = true;
                    f += (c - b'0') as i32;
                } else if b"PNBRQKpnbrqk".contains(&c) {
                    prev_digit = false;
                    if f >= 8 {
                        return Err("rank overflow".into());
                    }
                    board[sq(f, r) as usize] = c;
                    f += 1;
                } else {
                    return Err("illegal placement char".into());
                }
            }
            if f != 8 {
                return Err("rank sum".into());
            }
        }
        let white_to_move = match fields[1] {
            "w" => true,
            "b" => false,
            _ => return Err("side".into()),
        };
        let mut castle = [false; 4];
        if fields[2] != "-" {
            if fields[2].is_empty() {
                return Err("castle empty".into());
            }
            let mut last = -1i32;
            for c in fields[2].chars() {
                let idx = match c {
                    'K' => 0,
                    'Q' => 1,
                    'k' => 2,
                    'q' => 3,
                    _ => return Err("castle char".into()),
                };
                if idx <= last {
                    return Err("castle order".into());
                }
                last = idx;
                castle[idx as usize] = true;
            }
        }
        let ep = if fields[3] == "-" {
            None
        } else {
            Some(parse_sq(fields[3]).ok_or("ep")?)
        };
        let (half, full) = if fields.len() == 6 {
            let p = |t: &str| -> Result<u32, String> {
                if t.is_empty() || !t.bytes().all(|b| b.is_ascii_digit()) {
                    return Err("clock".into());
                }
                t.parse::<u32>().map_err(|_| "clock-range".to_string())
            };
            (p(fields[4])?, p(fields[5])?)
        } else {
            (0, 1)
        };
        Ok(Pos { board, white_to_move, castle, ep, half, full })
    }

    /// Is this a position the rules could produce and that the generators are specified for?
    /// (one king each, no pawns on back ranks, side not to move not in check, castling rights
    /// consistent with king/rook placement, e.p. square consistent with a just-made double step)
    pub fn is_sane(&self) -> bool {
        let wk = self.board.iter().filter(|&&p| p == b'K').count();
        let bk = self.board.iter().filter(|&&p| p == b'k').count();
        if wk != 1 || bk != 1 {
            return false;
        }
        for f in 0..8 {
            if kind(self.at(f, 0)) == b'p' || kind(self.at(f, 7)) == b'p' {
                return false;
            }
        }
        if self.in_check(!self.white_to_move) {
            return false;
        }
        if (self.castle[0] || self.castle[1]) && self.at(4, 0) != b'K' {
            return false;
        }
        if (self.castle[2] || self.castle[3]) && self.at(4, 7) != b'k' {
            return false;
        }
        if self.castle[0] && self.at(7, 0) != b'R' {
            return false;
        }
        if self.castle[1] && self.at(0, 0) != b'R' {
            return false;
        }
        if self.castle[2] && self.at(7, 7) != b'r' {
            return false;
        }
        if self.castle[3] && self.at(0, 7) != b'r' {
            return false;
        }
        if let Some(e) = self.ep {
            let f = file_of(e);
            if self.white_to_move {
                // black just played f7-f5: ep square on rank 6 (index 5), pawn on rank 5 (index 4)
                if rank_of(e) != 5 || self.at(f, 4) != b'p' || self.at(f, 5) != EMPTY || self.at(f, 6) != EMPTY {
                    return false;
                }
            } else if rank_of(e) != 2 || self.at(f, 3) != b'P' || self.at(f, 2) != EMPTY || self.at(f, 1) != EMPTY {
                return false;
            }
        }
        // keep piece counts within what promotion allows (avoid absurd material)
        let cnt = |c: u8| self.board.iter().filter(|&&p| p == c).count();
        if cnt(b'P') > 8 || cnt(b'p') > 8 {
            return false;
        }
        let white_total = self.board.iter().filter(|&&p| p != EMPTY && is_white(p)).count();
        let black_total = self.board.iter().filter(|&&p| p != EMPTY && !is_white(p)).count();
        white_total <= 16 && black_total <= 16
    }

    // ---------------------------------------------------------------- SAN

    /// Canonical SAN of a legal move (minimal disambiguation file -> rank -> both,
    /// 'x', '=Q', O-O / O-O-O, '+', '#' only for checkmate).
    pub fn san(&self, m: &Mv) -> String {
        let p = self.board[m.from as usize];
        let k = kind(p);
        let next = self.apply(m);
        let suffix = if next.in_check(next.white_to_move) {
            if next.has_legal_move() {
                "+"
            } else {
                "#"
            }
        } else {
            ""
        };
        if k == b'k' && (file_of(m.to) - file_of(m.from)).abs() == 2 {
            return format!("{}{}", if file_of(m.to) == 6 { "O-O" } else { "O-O-O" }, suffix);
        }
        let capture = self.is_capture(m);
        let mut s = String::new();
        if k == b'p' {
            if capture {
                s.push((b'a' + m.from % 8) as char);
            }
        } else {
            s.push(k.to_ascii_uppercase() as char);
            let rivals: Vec<Mv> = self
                .legal_moves()
                .into_iter()
                .filter(|o| o.to == m.to && o.from != m.from && self.board[o.from as usize] == p)
                .collect();
            if !rivals.is_empty() {
                let same_file = rivals.iter().any(|o| file_of(o.from) == file_of(m.from));
                let same_rank = rivals.iter().any(|o| rank_of(o.from) == rank_of(m.from));
                if !same_file {
                    s.push((b'a' + m.from % 8) as char);
                } else if !same_rank {
                    s.push((b'1' + m.from / 8) as char);
                } else {
                    s.push_str(&sq_name(m.from));
                }
            }
        }
        if capture {
            s.push('x');
        }
        s.push_str(&sq_name(m.to));
        if let Some(pr) = m.promo {
            s.push('=');
            s.push(pr.to_ascii_uppercase() as char);
        }
        s.push_str(suffix);
        s
    }

    // ---------------------------------------------------------------- misc

    /// Mirror ranks, swap colours, side to move, rights and e.p.
    pub fn flip(&self) -> Pos {
        let mut board = [EMPTY; 64];
        for s in 0..64u8 {
            let p = self.board[s as usize];
            if p != EMPTY {
                let t = sq(file_of(s), 7 - rank_of(s));
                board[t as usize] = if is_white(p) { p.to_ascii_lowercase() } else { p.to_ascii_uppercase() };
            }
        }
        Pos {
            board,
            white_to_move: !self.white_to_move,
            castle: [self.castle[2], self.castle[3], self.castle[0], self.castle[1]],
            ep: self.ep.map(|e| sq(file_of(e), 7 - rank_of(e))),
            half: self.half,
            full: self.full,
        }
    }

    /// Position identity for hashing / repetition (FEN convention for the e.p. field).
    pub fn key(&self) -> String {
        format!("{} {} {} {}", self.placement(), if self.white_to_move { 'w' } else { 'b' }, self.castle_str(), self.ep.map_or("-".to_string(), |e| ((b'a' + e % 8) as char).to_string()))
    }

    /// FIDE identity: e.p. counts only if an e.p. capture is actually legal.
    pub fn key_fide(&self) -> String {
        let ep_real = self.ep.filter(|&e| self.legal_moves().iter().any(|m| m.to == e && kind(self.board[m.from as usize]) == b'p' && file_of(m.from) != file_of(m.to)));
        format!("{} {} {} {}", self.placement(), if self.white_to_move { 'w' } else { 'b' }, self.castle_str(), ep_real.map_or("-".to_string(), |e| ((b'a' + e % 8) as char).to_string()))
    }
}

pub fn flip_mv(m: &Mv) -> Mv {
    Mv { from: sq(file_of(m.from), 7 - rank_of(m.from)), to: sq(file_of(m.to), 7 - rank_of(m.to)), promo: m.promo }
}

pub fn flip_uci(s: &str) -> String {
    Mv::parse(s).map_or_else(|| s.to_string(), |m| flip_mv(&m).uci())
}

/// Number of occurrences of the last position of `line` within the irreversible-move window
/// (positions since the last capture or pawn move), using `keyf` for identity.
pub fn occurrences(line: &[Pos], keyf: fn(&Pos) -> String) -> usize {
    let last = match line.last() {
        Some(l) => l,
        None => return 0,
    };
    let k = keyf(last);
    let n = line.len();
    let window = (last.half as usize).min(n - 1);
    let mut c = 0;
    for i in (n - 1 - window)..n {
        if keyf(&line[i]) == k {
            c += 1;
        }
    }
    c
}

/// Self-test against published perft numbers. Returns Err with the first mismatch.
pub fn self_test(deep: bool) -> Result<u64, String> {
    let mut cases: Vec<(&str, Vec<u64>)> = vec![
        (START_FEN, vec![20, 400, 8902, 197281]),
        ("r3k2r/p1ppqpb1/bn2pnp1/3PN3/1p2P3/2N2Q1p/PPPBBPPP/R3K2R w KQkq - 0 1", vec![48, 2039, 97862]),
        ("8/2p5/3p4/KP5r/1R3p1k/8/4P1P1/8 w - - 0 1", vec![14, 191, 2812, 43238]),
        ("r3k2r/Pppp1ppp/1b3nbN/nP6/BBP1P3/q4N2/Pp1P2PP/R2Q1RK1 w kq - 0 1", vec![6, 264, 9467]),
        ("r2q1rk1/pP1p2pp/Q4n2/bbp1p3/Np6/1B3NBn/pPPP1PPP/R3K2R b KQ - 0 1", vec![6, 264, 9467]),
        ("rnbq1k1r/pp1Pbppp/2p5/8/2B5/8/PPP1NnPP/RNBQK2R w KQ - 1 8", vec![44, 1486, 62379]),
        ("r4rk1/1pp1qppp/p1np1n2/2b1p1B1/2B1P1b1/P1NP1N2/1PP1QPPP/R4RK1 w - - 0 10", vec![46, 2079, 89890]),
    ];
    if deep {
        cases[0].1.push(4865609);
        cases[1].1.push(4085603);
        cases[2].1.push(674624);
        cases[3].1.push(422333);
        cases[5].1.push(2103487);
    }
    let mut total = 0;
    for (fen, exp) in &cases {
        let p = Pos::from_fen(fen)?;
        if p.to_fen() != *fen {
            return Err(format!("fen roundtrip {}", fen));
        }
        for (i, &e) in exp.iter().enumerate() {
            let got = p.perft(i as u32 + 1);
            if got != e {
                return Err(format!("perft({}) of {} = {} expected {}", i + 1, fen, got, e));
            }
            total += got;
            // colour symmetry of the reference itself
            if i < 3 {
                let g2 = p.flip().perft(i as u32 + 1);
                if g2 != e {
                    return Err(format!("flipped perft({}) of {} = {} expected {}", i + 1, fen, g2, e));
                }
            }
        }
    }
    // SAN spot checks
    let p = Pos::from_fen("4k3/8/8/8/8/5N2/8/1N2K3 w - - 0 1")?;
    let m = Mv::parse("b1d2").unwrap();
    if p.san(&m) != "Nbd2" {
        return Err(format!("san Nbd2 got {}", p.san(&m)));
    }
    let p = Pos::from_fen("7k/8/5K2/8/8/8/8/6Q1 w - - 0 1")?;
    if p.san(&Mv::parse("g1g6").unwrap()) != "Qg6" {
        return Err("san stalemate".into());
    }
    Ok(total)
}

//! Textbook fail-soft alpha-beta negamax over the reference model: no transposition
//! table, no killers, no PV reuse, no iterative deepening. Horizon = mate/stalemate value,
//! or exhaustive capture/promotion resolution with stand-pat. Leaf values come from a
//! caller-supplied evaluator (the engine's own static evaluation through a hook), so the
//! oracle checks the *search*, not the evaluation.

use super::{kind, Mv, Pos};

pub struct RefSearch<'a> {
    /// white-centric static value of a position that has legal moves
    pub eval_white: &'a mut dyn FnMut(&Pos) -> i32,
    /// mate base value (engine: 1 << 24); a mated side to move scores -(win - fullmove)
    pub win: i32,
    /// Some(v): positions that have occurred >= 3 times (history + line, irreversible-move
    /// window) at ply >= 1 are leaves valued `v` from the ROOT mover's point of view.
    pub draw_root_view: Option<i32>,
    /// history (all positions of the game including the root as last element) + current path
    pub line: Vec<Pos>,
    pub nodes: u64,
    pub qnodes: u64,
    pub rep_leaves: u64,
    pub node_budget: u64,
    pub exhausted: bool,
}

const INF: i32 = i32::MAX / 2;

impl<'a> RefSearch<'a> {
    pub fn new(eval_white: &'a mut dyn FnMut(&Pos) -> i32, win: i32, history: Vec<Pos>) -> Self {
        RefSearch { eval_white, win, draw_root_view: None, line: history, nodes: 0, qnodes: 0, rep_leaves: 0, node_budget: u64::MAX, exhausted: false }
    }

    fn static_mover(&mut self, p: &Pos) -> i32 {
        let v = (self.eval_white)(p);
        if p.white_to_move {
            v
        } else {
            -v
        }
    }

    fn terminal(&self, p: &Pos) -> i32 {
        if p.in_check(p.white_to_move) {
            -(self.win - p.full as i32)
        } else {
            0
        }
    }

    /// Exact value of `root` searched to `depth` plies (mover's point of view) restricted to
    /// `root_moves` at the root when given; returns (value, best moves attaining it).
    pub fn root(&mut self, depth: u32, root_moves: Option<&[Mv]>) -> (i32, Vec<(Mv, i32)>) {
        let root = self.line.last().unwrap().clone();
        let mut moves = root.legal_moves();
        if let Some(rm) = root_moves {
            moves.retain(|m| rm.contains(m));
        }
        let mut per_move = Vec::new();
        let mut best = -INF;
        for m in moves {
            let child = root.apply(&m);
            self.line.push(child);
            // full window per root move so that every root move's exact value is known
            let v = -self.negamax(depth - 1, 1, -INF, INF);
            self.line.pop();
            per_move.push((m, v));
            if v > best {
                best = v;
            }
        }
        (best, per_move)
    }

    fn order(p: &Pos, moves: &mut Vec<Mv>) {
        // captures of the most valuable piece first: purely a speed heuristic
        let val = |c: u8| match kind(c) {
            b'q' => 9,
            b'r' => 5,
            b'b' | b'n' => 3,
            b'p' => 1,
            _ => 0,
        };
        moves.sort_by_key(|m| -(val(p.board[m.to as usize]) * 16 - val(p.board[m.from as usize]) + if m.promo.is_some() { 100 } else { 0 }));
    }

    pub fn negamax(&mut self, depth_left: u32, ply: u32, mut alpha: i32, beta: i32) -> i32 {
        self.nodes += 1;
        if self.nodes + self.qnodes > self.node_budget {
            self.exhausted = true;
            return 0;
        }
        let p = self.line.last().unwrap().clone();
        if let Some(dv) = self.draw_root_view {
            if ply >= 1 && super::occurrences(&self.line, Pos::key) >= 3 {
                self.rep_leaves += 1;
                return if ply % 2 == 0 { dv } else { -dv };
            }
        }
        let mut moves = p.legal_moves();
        if moves.is_empty() {
            return self.terminal(&p);
        }
        if depth_left == 0 {
            return self.quiesce(&p, alpha, beta);
        }
        Self::order(&p, &mut moves);
        let mut best = -INF;
        for m in moves {
            let child = p.apply(&m);
            self.line.push(child);
            let v = -self.negamax(depth_left - 1, ply + 1, -beta, -alpha);
            self.line.pop();
            if v > best {
                best = v;
            }
            if best > alpha {
                alpha = best;
            }
            if alpha >= beta {
                break;
            }
        }
        best
    }

    fn quiesce(&mut self, p: &Pos, mut alpha: i32, beta: i32) -> i32 {
        self.qnodes += 1;
        if self.nodes + self.qnodes > self.node_budget {
            self.exhausted = true;
            return 0;
        }
        let stand = self.static_mover(p);
        if stand >= beta {
            return stand;
        }
        if stand > alpha {
            alpha = stand;
        }
        let mut best = stand;
        let w = p.white_to_move;
        let mut moves: Vec<Mv> = p.pseudo_moves().into_iter().filter(|m| p.is_capture(m) || m.promo.is_some()).collect();
        Self::order(p, &mut moves);
        for m in moves {
            let child = p.apply(&m);
            if child.in_check(w) {
                continue;
            }
            let v = -self.quiesce(&child, -beta, -alpha);
            if v > best {
                best = v;
            }
            if best > alpha {
                alpha = best;
            }
            if alpha >= beta {
                break;
            }
        }
        best
    }

    /// Unpruned minimax, used by the self-test to validate the pruned search.
    pub fn minimax_unpruned(&mut self, depth_left: u32, ply: u32) -> i32 {
        let p = self.line.last().unwrap().clone();
        if let Some(dv) = self.draw_root_view {
            if ply >= 1 && super::occurrences(&self.line, Pos::key) >= 3 {
                return if ply % 2 == 0 { dv } else { -dv };
            }
        }
        let moves = p.legal_moves();
        if moves.is_empty() {
            return self.terminal(&p);
        }
        if depth_left == 0 {
            return self.q_unpruned(&p);
        }
        let mut best = -INF;
        for m in moves {
            self.line.push(p.apply(&m));
            let v = -self.minimax_unpruned(depth_left - 1, ply + 1);
            self.line.pop();
            best = best.max(v);
        }
        best
    }

    fn q_unpruned(&mut self, p: &Pos) -> i32 {
        let mut best = self.static_mover(p);
        let w = p.white_to_move;
        for m in p.pseudo_moves().into_iter().filter(|m| p.is_capture(m) || m.promo.is_some()) {
            let child = p.apply(&m);
            if child.in_check(w) {
                continue;
            }
            best = best.max(-self.q_unpruned(&child));
        }
        best
    }
}

/// Is there a forced mate for the side to move in exactly `n` moves (2n-1 plies), and not fewer?
/// Returns the set of first moves that keep mate-in-n.
pub fn mate_in(p: &Pos, n: u32) -> Vec<Mv> {
    fn can_force(p: &Pos, plies: u32) -> bool {
        // side to move wants to mate within `plies` plies (odd)
        for m in p.legal_moves() {
            let c = p.apply(&m);
            if c.is_mate() {
                return true;
            }
            if plies >= 3 && !c.is_stalemate() && cannot_escape(&c, plies - 1) {
                return true;
            }
        }
        false
    }
    fn cannot_escape(p: &Pos, plies: u32) -> bool {
        // defender to move; every reply must still allow a mate within plies-1
        let ms = p.legal_moves();
        if ms.is_empty() {
            return p.in_check(p.white_to_move);
        }
        ms.iter().all(|m| can_force(&p.apply(m), plies - 1))
    }
    if n == 0 {
        return vec![];
    }
    if n > 1 && can_force(p, 2 * (n - 1) - 1) {
        return vec![]; // a shorter mate exists
    }
    let plies = 2 * n - 1;
    let mut out = Vec::new();
    for m in p.legal_moves() {
        let c = p.apply(&m);
        let ok = if c.is_mate() { n == 1 } else { plies >= 3 && !c.is_stalemate() && cannot_escape(&c, plies - 1) };
        if ok {
            out.push(m);
        }
    }
    out
}

//! LineSim — high-volume driver of the GUI->engine text seam: the real `ConsoleUciRx::start`
//! loop with a read closure serving planned lines and a recording `on_command`, no engine
//! behind it. Lines are grammar-generated, token/byte-mutated, or arbitrary bytes (C15).

use std::cell::RefCell;
use std::collections::VecDeque;
use std::panic::{catch_unwind, AssertUnwindSafe};
use std::str::FromStr;

use inkayaku_core::constants::{Piece, Square};
use inkayaku_uci::console::ConsoleUciRx;
use inkayaku_uci::{UciCommand, UciMove};
use serde::{Deserialize, Serialize};
use serde_json::json;

use crate::common::{panic_message, RunResult, Violation};
use crate::refchess::{Mv, Pos};
use crate::rng::{Fnv, Rng};
use crate::uciref::{self, Expect};

#[derive(Clone, Debug, Serialize, Deserialize, PartialEq)]
pub struct LinePlan {
    pub focus: String,
    pub lines: Vec<String>,
    /// slice of the 64x64x6 move-text space swept by this run (start index, count)
    pub move_sweep: (u32, u32),
}

pub fn gen_plan(seed: u64, thorough: bool, pool: &[Pos]) -> LinePlan {
    let mut rng = Rng::new(seed);
    let n = if thorough { 600 } else { 300 };
    let fens: Vec<String> = (0..6).map(|_| rng.pick(pool).to_fen()).collect();
    let legal: Vec<Mv> = Pos::start().legal_moves();
    let mut lines = Vec::with_capacity(n);
    for _ in 0..n {
        let base = uciref::random_wellformed(&mut rng, &fens, &legal);
        let l = match rng.below(10) {
            0..=4 => base,
            5..=8 => uciref::mutate_line(&base, &mut rng),
            _ => {
                let l1 = uciref::mutate_line(&base, &mut rng);
                uciref::mutate_line(&l1, &mut rng)
            }
        };
        lines.push(l);
    }
    let total = 64 * 64 * 6;
    let count = 2048;
    let start = (rng.below((total / count) as u64) as u32) * count;
    LinePlan { focus: "C15".into(), lines, move_sweep: (start, count) }
}

fn ref_square(s: u8) -> Square {
    // reference square (file + 8*rank, rank 0 = '1') -> code square via from_indices(file, 8 - rankdigit)
    Square::from_indices((s % 8) as usize, 7 - (s / 8) as usize).unwrap()
}

pub fn exec_plan(plan: &LinePlan) -> RunResult {
    let mut res = RunResult::default();
    let mut log = Fnv::default();
    let mut shape = Fnv::default();
    let out = run(plan, &mut res, &mut log, &mut shape);
    res.hash = log.0;
    res.shape = shape.0;
    res.nontrivial = res.steps >= 10;
    if let Err(v) = out {
        if v.property == "C15" {
            res.violation = Some(v);
        } else {
            res.foreign = Some(v);
        }
    }
    res
}

fn run(plan: &LinePlan, res: &mut RunResult, log: &mut Fnv, shape: &mut Fnv) -> Result<(), Violation> {
    // ---- move text round trip over a slice of all 64x64x6 triples
    let promos = [None, Some(Piece::QUEEN), Some(Piece::ROOK), Some(Piece::BISHOP), Some(Piece::KNIGHT), Some(Piece::KING)];
    let letters = ["", "q", "r", "b", "n", "k"];
    for i in plan.move_sweep.0..plan.move_sweep.0 + plan.move_sweep.1 {
        let from = (i / (64 * 6)) % 64;
        let to = (i / 6) % 64;
        let pi = (i % 6) as usize;
        let text = format!("{}{}{}", crate::refchess::sq_name(from as u8), crate::refchess::sq_name(to as u8), letters[pi]);
        let built = match promos[pi] {
            None => UciMove::new(ref_square(from as u8), ref_square(to as u8)),
            Some(p) => UciMove::new_with_promotion(ref_square(from as u8), ref_square(to as u8), p),
        };
        let shown = catch_unwind(AssertUnwindSafe(|| built.to_string())).map_err(|e| Violation::new("C15", "move_display_panic", format!("{}: {}", text, panic_message(&e))))?;
        if shown != text {
            return Err(Violation::new("C15", "move_display_mismatch", format!("move {} is displayed as {:?}", text, shown)));
        }
        let parsed = catch_unwind(|| UciMove::from_str(&text)).map_err(|e| Violation::new("C15", "move_parse_panic", format!("{}: {}", text, panic_message(&e))))?;
        match parsed {
            Ok(m) if m == built => {}
            other => return Err(Violation::new("C15", "move_round_trip_mismatch", format!("{:?} parses to {:?}, expected {:?}", text, other, built))),
        }
        res.bump("move_texts_round_tripped");
    }
    // ---- the reader loop over the planned lines
    let queue: RefCell<VecDeque<String>> = RefCell::new(plan.lines.iter().cloned().collect());
    let results: RefCell<Vec<(String, String, bool)>> = RefCell::new(Vec::new());
    let current: RefCell<String> = RefCell::new(String::new());
    while !queue.borrow().is_empty() {
        let read = || -> Result<String, std::io::Error> {
            let l = queue.borrow_mut().pop_front().unwrap_or_else(|| "quit".to_string());
            *current.borrow_mut() = l.clone();
            Ok(l)
        };
        let on_command = |r: Result<UciCommand, inkayaku_uci::console::ConsoleUciRxError>| {
            let (s, ok) = match &r {
                Ok(c) => (format!("Ok({:?})", c), true),
                Err(e) => (format!("Err({:?})", e), false),
            };
            results.borrow_mut().push((current.borrow().clone(), s, ok));
        };
        let rx = ConsoleUciRx::new(read, on_command);
        let r = catch_unwind(AssertUnwindSafe(|| rx.start()));
        if let Err(e) = r {
            let line = current.borrow().clone();
            let msg = panic_message(&e);
            return Err(Violation::new("C15", "reader_thread_panic", format!("reader loop panicked on line {:?}: {}", line, msg)).with("thread", json!("M")).with("site", json!(panic_site_of(&line))));
        }
    }
    for (line, parsed, ok) in results.borrow().iter() {
        res.steps += 1;
        log.write_str(line);
        log.write_str(parsed);
        let expect = uciref::expect(line);
        shape.write_str(match &expect {
            Expect::Exactly(_) => "E",
            Expect::MustErr => "X",
            Expect::Unspecified => "U",
        });
        match expect {
            Expect::Exactly(c) => {
                res.bump("lines_wellformed");
                let want = uciref::to_uci_command(&c).ok_or_else(|| Violation::new("HARNESS", "reference_conversion", format!("{:?}", c)))?;
                let want_s = format!("Ok({:?})", want);
                if *parsed != want_s {
                    return Err(Violation::new("C15", "command_misparsed", format!("line {:?} parsed as {} expected {}", line, parsed, want_s)).with("first_word", json!(uciref::first_word_kind(line))));
                }
            }
            Expect::MustErr => {
                res.bump("fault.corrupted_line");
                if *ok {
                    return Err(Violation::new("C15", "malformed_line_accepted", format!("line {:?} must be a parse error but gave {}", line, parsed)).with("first_word", json!(uciref::first_word_kind(line))));
                }
            }
            Expect::Unspecified => {
                res.bump("lines_unspecified");
                if *ok {
                    let kind = uciref::first_word_kind(line);
                    if kind.is_empty() || !parsed.starts_with(&format!("Ok({}", if kind == "Register" { "Register" } else { kind })) {
                        return Err(Violation::new("C15", "line_misread_as_other_command", format!("line {:?} parsed as {}", line, parsed)));
                    }
                }
            }
        }
    }
    Ok(())
}

fn panic_site_of(line: &str) -> &'static str {
    // coarse classification of the line that killed the reader (for known-finding matching)
    if line.split(' ').any(|t| t.len() >= 4 && t.chars().next().map_or(false, |c| (c as u32) < ('a' as u32))) {
        "move_token_file_below_a"
    } else {
        "other"
    }
}

pub fn shrink_candidates(plan: &LinePlan) -> Vec<LinePlan> {
    let mut out = Vec::new();
    let n = plan.lines.len();
    if plan.move_sweep.1 > 0 {
        let mut p = plan.clone();
        p.move_sweep.1 = 0;
        out.push(p);
    }
    let mut chunk = n / 2;
    while chunk >= 1 {
        let mut start = 0;
        while start < n {
            let mut p = plan.clone();
            p.lines.drain(start..(start + chunk).min(n));
            out.push(p);
            start += chunk;
        }
        if chunk == 1 {
            break;
        }
        chunk /= 2;
    }
    out
}

//! Types shared by all simulators.

use std::collections::BTreeMap;

use serde::{Deserialize, Serialize};
use serde_json::Value;

#[derive(Clone, Debug, Serialize, Deserialize, PartialEq)]
pub struct Violation {
    pub property: String,
    /// violation class, e.g. "successor_fen_mismatch", "search_thread_panic"
    pub class: String,
    pub detail: String,
    /// narrow description of the trigger; known-findings entries match on these keys
    #[serde(default)]
    pub trigger: BTreeMap<String, Value>,
}

impl Violation {
    pub fn new(property: &str, class: &str, detail: String) -> Self {
        Violation { property: property.to_string(), class: class.to_string(), detail, trigger: BTreeMap::new() }
    }
    pub fn with(mut self, k: &str, v: Value) -> Self {
        self.trigger.insert(k.to_string(), v);
        self
    }
}

#[derive(Clone, Debug, Default, Serialize, Deserialize)]
pub struct RunResult {
    pub run: u64,
    pub seed: u64,
    /// hash of the event log of this run (identity of the execution)
    pub hash: u64,
    /// coarser hash used for "distinct interleavings / states" counts
    pub shape: u64,
    pub nontrivial: bool,
    pub steps: u64,
    pub sim_ns: u64,
    pub counters: BTreeMap<String, u64>,
    pub violation: Option<Violation>,
    /// first violation of a property other than the one being checked (run stops there)
    pub foreign: Option<Violation>,
    #[serde(default)]
    pub plan: Option<Value>,
}

impl RunResult {
    pub fn bump(&mut self, k: &str) {
        *self.counters.entry(k.to_string()).or_insert(0) += 1;
    }
    pub fn add(&mut self, k: &str, n: u64) {
        *self.counters.entry(k.to_string()).or_insert(0) += n;
    }
}

pub fn seed_from_env() -> u64 {
    std::env::var("VERIF_SEED").ok().and_then(|s| s.trim().parse::<u64>().ok()).unwrap_or(20260102)
}

pub fn panic_message(e: &Box<dyn std::any::Any + Send>) -> String {
    if let Some(s) = e.downcast_ref::<&str>() {
        s.to_string()
    } else if let Some(s) = e.downcast_ref::<String>() {
        s.clone()
    } else {
        "non-string panic payload".to_string()
    }
}

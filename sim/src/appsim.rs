//! AppLineSim (C16, output path of the shipped binary) — engine_app/src/main.rs's own `print_ln`
//! behind `ConsoleUciTx`, written to by two or three threads at once, under Miri's seeded scheduler.
//!
//! The lock-step scheduler of EngineSim releases one thread at a time, so it can never put two
//! threads inside the output path at once; and it mirrors main.rs's wiring instead of running it.
//! This simulator closes that gap: /verif/sim_app compiles engine_app/src/main.rs unchanged
//! (include!) and runs its output path under Miri, where (workload, -Zmiri-seed, preemption rate)
//! decide every thread switch inside the real std::io::Stdout code and replay exactly.
//!
//! Oracle: the bytes on stdout are whole lines; every line is a valid engine-to-GUI message (reference
//! grammar); by meaning the lines are exactly the messages of the plan (multiset); and as text they
//! equal, as a multiset, what the same workload writes from a single thread.

use std::collections::BTreeMap;
use std::io::Read;
use std::path::PathBuf;
use std::process::{Command, Stdio};
use std::time::{Duration, Instant};

use serde::{Deserialize, Serialize};

use crate::common::{RunResult, Violation};
use crate::rng::{Fnv, Rng};
use crate::uciref;

#[derive(Clone, Debug, Serialize, Deserialize, PartialEq)]
pub struct AppPlan {
    /// one list of items per writer thread (grammar: see sim_app/src/main.rs)
    pub threads: Vec<Vec<String>>,
    pub miri_seed: u64,
    pub rate_permille: u32,
}

fn mv(rng: &mut Rng) -> String {
    let mut s = String::new();
    for i in 0..4 {
        s.push(if i % 2 == 0 { (b'a' + rng.below(8) as u8) as char } else { (b'1' + rng.below(8) as u8) as char });
    }
    s
}

pub fn gen_plan(seed: u64, thorough: bool) -> AppPlan {
    let mut rng = Rng::new(seed);
    let n_threads = 2 + rng.usize_below(2);
    let mut threads = Vec::new();
    for t in 0..n_threads {
        // short lines dominate: the less formatting work between two writes, the more often two
        // threads are inside the output path at the same time
        let n = 3 + rng.usize_below(if thorough { 10 } else { 7 });
        let mut v = Vec::new();
        for k in 0..n {
            // thread 0 plays the reader thread (id / uciok / readyok), the others the search thread
            let item = if t == 0 && rng.chance(3, 4) {
                match rng.below(4) {
                    0 => format!("NInkayaku {}", k),
                    1 => format!("AAuthor {}", k),
                    2 => "U".to_string(),
                    _ => "R".to_string(),
                }
            } else if rng.below(3) == 0 {
                let b = mv(&mut rng);
                if rng.chance(1, 2) {
                    format!("B{}:{}", b, mv(&mut rng))
                } else {
                    format!("B{}", b)
                }
            } else {
                let long = rng.chance(1, 6);
                let len = 1 + rng.usize_below(if long { 40 } else { 3 });
                let pv: Vec<String> = (0..len).map(|_| mv(&mut rng)).collect();
                let mut s = format!("I{}:{}:{}:{}:{}", 1 + k, rng.below(1_000_000), rng.below(5000), rng.below(2000) as i64 - 1000, pv.join("+"));
                if rng.chance(1, 5) {
                    s.push_str(&format!(":t{} k{}", t, k));
                }
                s
            };
            v.push(item);
        }
        threads.push(v);
    }
    AppPlan { threads, miri_seed: rng.below(1 << 32), rate_permille: *rng.pick(&[10u32, 30, 100, 300]) }
}

fn spec(plan: &AppPlan) -> String {
    plan.threads.iter().map(|t| t.join(",")).collect::<Vec<_>>().join("/")
}

fn verif_dir() -> PathBuf {
    if let Ok(d) = std::env::var("VERIF_DIR") {
        return PathBuf::from(d);
    }
    let exe = std::env::current_exe().unwrap_or_else(|_| PathBuf::from("/verif/target/release/sim"));
    exe.parent().and_then(|p| p.parent()).and_then(|p| p.parent()).map(|p| p.to_path_buf()).unwrap_or_else(|| PathBuf::from("/verif"))
}

/// Run a command with a real-time limit; (exit code, stdout, stderr).
fn run_limited(mut cmd: Command, limit: Duration) -> Result<(Option<i32>, Vec<u8>, String), String> {
    let mut child = cmd.stdin(Stdio::null()).stdout(Stdio::piped()).stderr(Stdio::piped()).spawn().map_err(|e| format!("spawn: {}", e))?;
    let mut out = child.stdout.take().unwrap();
    let mut err = child.stderr.take().unwrap();
    let to = std::thread::spawn(move || {
        let mut b = Vec::new();
        let _ = out.read_to_end(&mut b);
        b
    });
    let te = std::thread::spawn(move || {
        let mut b = Vec::new();
        let _ = err.read_to_end(&mut b);
        String::from_utf8_lossy(&b).to_string()
    });
    let t0 = Instant::now();
    let status = loop {
        match child.try_wait() {
            Ok(Some(s)) => break s,
            Ok(None) => {
                if t0.elapsed() > limit {
                    let _ = child.kill();
                    let _ = child.wait();
                    return Err("real-time limit exceeded".into());
                }
                std::thread::sleep(Duration::from_millis(20));
            }
            Err(e) => return Err(format!("wait: {}", e)),
        }
    };
    Ok((status.code(), to.join().unwrap_or_default(), te.join().unwrap_or_default()))
}

fn harness(class: &str, detail: String) -> Violation {
    Violation::new("HARNESS", class, detail)
}

/// What an item of the plan must look like on stdout, by meaning (field order within `info` is the
/// transmitter's choice, so lines are compared after parsing with the reference grammar).
fn expected_key(item: &str) -> String {
    let (kind, rest) = item.split_at(1);
    match kind {
        "N" => format!("id name {}", rest),
        "A" => format!("id author {}", rest),
        "U" => "uciok".to_string(),
        "R" => "readyok".to_string(),
        "B" => {
            let mut it = rest.split(':');
            format!("bestmove {} ponder {:?}", it.next().unwrap_or(""), it.next())
        }
        _ => {
            let f: Vec<&str> = rest.splitn(6, ':').collect();
            format!("info depth {} nodes {} time {} cp {} pv {} string {:?}", f[0], f[1], f[2], f[3], f[4].replace('+', " "), f.get(5))
        }
    }
}

fn observed_key(line: &str) -> Result<String, String> {
    Ok(match uciref::parse_out(line)? {
        uciref::OutLine::IdName(n) => format!("id name {}", n),
        uciref::OutLine::IdAuthor(n) => format!("id author {}", n),
        uciref::OutLine::UciOk => "uciok".to_string(),
        uciref::OutLine::ReadyOk => "readyok".to_string(),
        uciref::OutLine::BestMove { best, ponder } => format!("bestmove {} ponder {:?}", best, ponder.as_deref()),
        uciref::OutLine::Info(i) => {
            if i.seldepth.is_some() || i.score_mate.is_some() || i.hashfull.is_some() || i.nps.is_some() {
                return Ok(format!("info with fields nobody sent: {}", line));
            }
            let opt = |v: Option<u64>| v.map_or("-".to_string(), |x| x.to_string());
            format!("info depth {} nodes {} time {} cp {} pv {} string {:?}", opt(i.depth), opt(i.nodes), opt(i.time), i.score_cp.map_or("-".to_string(), |x| x.to_string()), i.pv.clone().unwrap_or_default().join(" "), i.string.as_deref())
        }
        other => format!("unexpected message {:?}", other),
    })
}

pub fn exec_plan(plan: &AppPlan) -> RunResult {
    let mut res = RunResult::default();
    if let Err(v) = run(plan, &mut res) {
        res.violation = Some(v);
    }
    res
}

fn run(plan: &AppPlan, res: &mut RunResult) -> Result<(), Violation> {
    let dir = verif_dir();
    let app_dir = dir.join("sim_app");
    let native = dir.join("target_app").join("debug").join("appline");
    if !native.exists() {
        return Err(harness("appline_missing", format!("{} is missing (./run builds it for C16)", native.display())));
    }
    let spec = spec(plan);
    // reference: the same lines from one thread, natively
    let mut c = Command::new(&native);
    c.args(["sequential", &spec]);
    let (code, want_bytes, err) = run_limited(c, Duration::from_secs(60)).map_err(|e| harness("appline_reference", e))?;
    if code != Some(0) {
        return Err(harness("appline_reference", format!("exit {:?}: {}", code, err)));
    }
    let want_text = String::from_utf8_lossy(&want_bytes).to_string();
    let mut want: Vec<&str> = want_text.lines().collect();
    // simulation: the writers run concurrently under Miri's seeded scheduler
    let mut c = Command::new("cargo");
    c.args(["+nightly", "miri", "run", "--offline", "-q", "--", "concurrent", &spec]).current_dir(&app_dir).env("MIRIFLAGS", format!("-Zmiri-seed={} -Zmiri-preemption-rate={}", plan.miri_seed, plan.rate_permille as f64 / 1000.0)).env("CARGO_NET_OFFLINE", "true").env_remove("RUSTFLAGS");
    let (code, got_bytes, err) = run_limited(c, Duration::from_secs(600)).map_err(|e| harness("miri_run", e))?;
    let got_text = String::from_utf8_lossy(&got_bytes).to_string();
    res.bump("app.miri_runs");
    res.bump(&format!("fault.preemption_rate_permille_{}", plan.rate_permille));
    res.add("app.lines_expected", want.len() as u64);
    res.steps = want.len() as u64;
    let mut log = Fnv::default();
    log.write(&got_bytes);
    res.hash = log.0;
    res.nontrivial = want.len() >= 4;
    // order of message kinds in the output
    let mut shape = Fnv::default();
    for l in got_text.lines() {
        shape.write_str(l.split(' ').next().unwrap_or(""));
    }
    shape.write_u64(plan.miri_seed);
    res.shape = shape.0;
    if want_text != got_text {
        res.bump("probe.app_lines_interleaved_across_threads");
    }
    let tail = |s: &str| s.lines().filter(|l| !l.trim().is_empty()).rev().take(12).collect::<Vec<_>>().into_iter().rev().collect::<Vec<_>>().join(" | ");
    if code != Some(0) {
        // Miri found something in the output path itself (data race, deadlock, abort) or could not run
        let t = tail(&err);
        if t.contains("Undefined Behavior") || t.contains("deadlock") || t.contains("data race") {
            return Err(Violation::new("C16", "app_output_path_error", format!("Miri stopped the writers of [{}] (seed {}, rate {}‰): {}", spec, plan.miri_seed, plan.rate_permille, t)));
        }
        return Err(harness("miri_run", format!("exit {:?}: {}", code, t)));
    }
    if !got_text.is_empty() && !got_text.ends_with('\n') {
        return Err(Violation::new("C16", "app_output_line_torn", format!("output of [{}] does not end with a line break: {:?}", spec, got_text)));
    }
    let mut got: Vec<&str> = got_text.lines().collect();
    for l in &got {
        if let Err(e) = uciref::parse_out(l) {
            return Err(Violation::new("C16", "app_output_line_malformed", format!("writers [{}] under Miri seed {} rate {}‰: stdout line {:?} is not a UCI message ({}); full output {:?}", spec, plan.miri_seed, plan.rate_permille, l, e, got_text)));
        }
    }
    // by meaning, against the plan itself (independent of the program's own single-threaded output)
    let mut want_keys: Vec<String> = plan.threads.iter().flatten().map(|i| expected_key(i)).collect();
    let mut got_keys: Vec<String> = Vec::new();
    for l in &got {
        got_keys.push(observed_key(l).map_err(|e| Violation::new("C16", "app_output_line_malformed", format!("{:?}: {}", l, e)))?);
    }
    want_keys.sort();
    got_keys.sort();
    if want_keys != got_keys {
        let missing: Vec<&String> = want_keys.iter().filter(|k| !got_keys.contains(k)).collect();
        let extra: Vec<&String> = got_keys.iter().filter(|k| !want_keys.contains(k)).collect();
        return Err(Violation::new("C16", "app_output_differs_from_messages_sent", format!("writers [{}] under Miri seed {} rate {}‰: messages sent but not on stdout {:?}; on stdout but never sent {:?}; full output {:?}", spec, plan.miri_seed, plan.rate_permille, missing, extra, got_text)));
    }
    want.sort();
    got.sort();
    if want != got {
        let mut counts: BTreeMap<&str, i64> = BTreeMap::new();
        for l in &want {
            *counts.entry(l).or_insert(0) += 1;
        }
        for l in &got {
            *counts.entry(l).or_insert(0) -= 1;
        }
        let missing: Vec<&&str> = counts.iter().filter(|(_, c)| **c > 0).map(|(l, _)| l).collect();
        let extra: Vec<&&str> = counts.iter().filter(|(_, c)| **c < 0).map(|(l, _)| l).collect();
        return Err(Violation::new("C16", "app_output_line_torn", format!("writers [{}] under Miri seed {} rate {}‰: lines missing {:?}, lines that nobody wrote {:?}", spec, plan.miri_seed, plan.rate_permille, missing, extra)));
    }
    Ok(())
}

pub fn shrink_candidates(plan: &AppPlan) -> Vec<AppPlan> {
    let mut out = Vec::new();
    if plan.threads.len() > 2 {
        for i in 0..plan.threads.len() {
            let mut p = plan.clone();
            p.threads.remove(i);
            out.push(p);
        }
    }
    for (ti, t) in plan.threads.iter().enumerate() {
        if t.len() > 1 {
            let mut p = plan.clone();
            p.threads[ti].truncate(t.len() / 2);
            out.push(p);
            let mut p = plan.clone();
            p.threads[ti].drain(..t.len() / 2);
            out.push(p);
        }
    }
    out
}

//! Curated start positions. Every entry is a legal position with consistent castling
//! rights / e.p. state; the colour-flipped twin of every entry is added automatically.

use crate::refchess::Pos;

pub const CURATED: &[&str] = &[
    "rnbqkbnr/pppppppp/8/8/8/8/PPPPPPPP/RNBQKBNR w KQkq - 0 1",
    // perft classics
    "r3k2r/p1ppqpb1/bn2pnp1/3PN3/1p2P3/2N2Q1p/PPPBBPPP/R3K2R w KQkq - 0 1",
    "8/2p5/3p4/KP5r/1R3p1k/8/4P1P1/8 w - - 0 1",
    "r3k2r/Pppp1ppp/1b3nbN/nP6/BBP1P3/q4N2/Pp1P2PP/R2Q1RK1 w kq - 0 1",
    "rnbq1k1r/pp1Pbppp/2p5/8/2B5/8/PPP1NnPP/RNBQK2R w KQ - 1 8",
    "r4rk1/1pp1qppp/p1np1n2/2b1p1B1/2B1P1b1/P1NP1N2/1PP1QPPP/R4RK1 w - - 0 10",
    // all castling subsets on a bare R+K board (both to move)
    "r3k2r/8/8/8/8/8/8/R3K2R w KQkq - 0 1",
    "r3k2r/8/8/8/8/8/8/R3K2R b KQkq - 0 1",
    "r3k2r/8/8/8/8/8/8/R3K2R w KQk - 0 1",
    "r3k2r/8/8/8/8/8/8/R3K2R w KQq - 0 1",
    "r3k2r/8/8/8/8/8/8/R3K2R w KQ - 0 1",
    "r3k2r/8/8/8/8/8/8/R3K2R w Kkq - 0 1",
    "r3k2r/8/8/8/8/8/8/R3K2R w Kk - 0 1",
    "r3k2r/8/8/8/8/8/8/R3K2R w Kq - 0 1",
    "r3k2r/8/8/8/8/8/8/R3K2R w K - 0 1",
    "r3k2r/8/8/8/8/8/8/R3K2R w Qkq - 0 1",
    "r3k2r/8/8/8/8/8/8/R3K2R w Qk - 0 1",
    "r3k2r/8/8/8/8/8/8/R3K2R w Qq - 0 1",
    "r3k2r/8/8/8/8/8/8/R3K2R w Q - 0 1",
    "r3k2r/8/8/8/8/8/8/R3K2R w kq - 0 1",
    "r3k2r/8/8/8/8/8/8/R3K2R w k - 0 1",
    "r3k2r/8/8/8/8/8/8/R3K2R w q - 0 1",
    "r3k2r/8/8/8/8/8/8/R3K2R w - - 0 1",
    "r3k2r/8/8/8/8/8/8/R3K2R b Kq - 0 1",
    "r3k2r/8/8/8/8/8/8/R3K2R b Qk - 0 1",
    // castling through / out of / into attack, b-file attacked (queen side still legal)
    "r3k2r/8/8/8/8/8/6b1/R3K2R w KQkq - 0 1",
    "r3k2r/8/8/8/8/5b2/8/R3K2R w KQkq - 0 1",
    "r3k2r/8/8/8/8/8/1r6/R3K2R w KQ - 0 1",
    "1r2k2r/8/8/8/8/8/8/R3K2R w KQk - 0 1",
    "r3k2r/8/8/8/8/8/3r4/R3K2R w KQkq - 0 1",
    "r3k2r/8/8/8/8/2n5/8/R3K2R w KQkq - 0 1",
    "r3k2r/5N2/8/8/8/8/8/R3K2R b KQkq - 0 1",
    "r3k2r/8/1N6/8/8/8/8/R3K2R b KQkq - 0 1",
    "r3k2r/8/8/8/8/8/8/RN2K1NR w KQkq - 0 1",
    // rook captured on home square with right held
    "r3k2r/8/8/8/8/8/6B1/R3K2R w KQkq - 0 1",
    "r3k2r/1b6/8/8/8/8/8/R3K2R b KQkq - 0 1",
    "r3k2r/8/8/8/8/8/8/R3K1nR b KQkq - 0 1",
    // en passant: plain, both sides, with rank pin, with discovered check, capturing checker
    "rnbqkbnr/ppp1p1pp/8/3pPp2/8/8/PPPP1PPP/RNBQKBNR w KQkq f6 0 3",
    "rnbqkbnr/pppp1ppp/8/8/3PpP2/8/PPP1P1PP/RNBQKBNR b KQkq d3 0 3",
    "8/8/8/K2pP2r/8/8/8/4k3 w - d6 0 1",
    "8/8/8/8/R2Pp2k/8/8/4K3 b - d3 0 1",
    "4k3/8/8/2KpP2r/8/8/8/8 w - d6 0 1",
    "8/8/2k5/3pP3/8/8/8/3RK3 w - d6 0 1",
    "8/8/8/2k5/3Pp3/8/8/4K3 b - d3 0 1",
    "4k3/8/8/8/2pP4/8/B7/4K3 b - d3 0 1",
    "8/8/8/1k6/3Pp3/8/8/4KQ2 b - d3 0 1",
    "7k/8/8/1pP5/8/8/8/K7 w - b6 0 2",
    // promotions: quiet, capture, under-promotion needed, three candidate pawns
    "1n1n4/PPP5/8/8/8/8/6k1/4K3 w - - 0 1",
    "4k3/8/8/8/8/8/ppp5/1N1NK3 b - - 0 1",
    "r1b1k3/1P6/8/8/8/8/8/4K3 w q - 0 1",
    "8/5P1k/8/8/8/8/8/K7 w - - 0 1",
    "6n1/5P1k/5Q2/8/8/8/8/K7 w - - 0 1",
    "8/8/8/8/8/8/1p4k1/R3K3 b Q - 0 1",
    // pins, double check, discovered check
    "4k3/4r3/8/8/8/8/4B3/4K3 w - - 0 1",
    "4k3/8/8/b7/8/2N5/8/4K3 w - - 0 1",
    "k7/8/8/8/8/5n2/4r3/4K3 w - - 0 1",
    "4k3/8/8/8/7b/8/4r3/4K1N1 w - - 0 1",
    "3rk3/8/8/8/8/8/3N4/3K4 w - - 0 1",
    "rnb1kbnr/pppp1ppp/8/4p3/5PPq/8/PPPPP2P/RNBQKBNR w KQkq - 1 3",
    // mates and stalemates (both colours)
    "7k/5Q2/6K1/8/8/8/8/8 b - - 0 1",
    "7k/8/5K2/8/8/8/8/6Q1 w - - 0 1",
    "R5k1/5ppp/8/8/8/8/8/4K3 b - - 0 1",
    "4k3/8/8/8/8/8/5PPP/r5K1 w - - 0 1",
    "5k2/5P2/5K2/8/8/8/8/8 b - - 0 1",
    "8/8/8/8/8/5k2/5p2/5K2 w - - 0 1",
    "k7/2Q5/1K6/8/8/8/8/8 b - - 0 60",
    // bare kings, K+Q v K, K+R v K, high clocks and move numbers
    "8/8/4k3/8/8/4K3/8/8 w - - 0 1",
    "8/8/4k3/8/8/4K3/8/8 b - - 99 120",
    "8/8/8/4k3/8/8/3QK3/8 w - - 49 80",
    "8/8/8/4k3/8/8/3QK3/8 w - - 98 80",
    "8/8/8/4k3/8/8/3RK3/8 b - - 127 200",
    "8/8/8/4k3/8/8/3RK3/8 w - - 128 200",
    "8/8/8/4k3/8/8/3RK3/8 w - - 129 200",
    "8/8/8/4k3/8/8/3RK3/8 b - - 255 400",
    "8/8/8/4k3/8/8/3RK3/8 w - - 1000 900",
    "8/8/8/4k3/8/8/3RK3/8 w - - 4000 2200",
    "r3k2r/pppq1ppp/2npbn2/2b1p3/2B1P3/2NPBN2/PPPQ1PPP/R3K2R w KQkq - 6 9",
    "r3k2r/pppq1ppp/2npbn2/2b1p3/2B1P3/2NPBN2/PPPQ1PPP/R3K2R b KQkq - 7 9",
    // SAN disambiguation zoo
    "4k3/8/8/8/8/5N2/8/1N2K3 w - - 0 1",
    "1k6/8/8/8/4Q2Q/8/8/K6Q w - - 0 1",
    "4k3/8/2N3N1/8/8/8/2N3N1/4K3 w - - 0 1",
    "3rk2r/8/8/8/8/8/8/R2RK3 w - - 0 1",
    "4k3/8/8/8/R6R/8/8/R3K3 w - - 0 1",
    "k7/8/8/3b1b2/8/3b1b2/8/K7 b - - 0 1",
    // middlegames
    "r1bq1rk1/pp2bppp/2n1pn2/2pp4/3P1B2/2PBPN2/PP1N1PPP/R2QK2R w KQ - 4 8",
    "r2q1rk1/pb1nbppp/1p2pn2/2pp4/3P4/1PN1PNP1/PB2PPBP/R2Q1RK1 b - - 2 10",
    "2kr3r/ppp2ppp/2n1bn2/2b1p1B1/4P3/2NP1N2/PPP2PPP/2KR1B1R w - - 3 9",
    "r1b2rk1/2q1bppp/p2p1n2/np2p3/3PP3/2P2N1P/PPB2PP1/RNBQR1K1 w - - 1 13",
    "8/pp3p1k/2p2q1p/3r1P2/5R2/7P/P1P1QP2/7K b - - 1 30",
    "5rk1/5r2/p7/2pNp1q1/2P1P2p/1P3P1P/P4RP1/5RK1 w - - 0 28",
    "3r2k1/1p3ppp/p1n1p3/8/3P4/P3BN2/1P3PPP/4R1K1 w - - 0 22",
    "8/2k5/2p5/1pP2p2/1P3P2/4K3/8/8 w - - 5 45",
    "8/8/1p2k1p1/1P2p1P1/4P3/4K3/8/8 b - - 12 52",
    "6k1/1R6/6K1/8/8/8/8/r7 b - - 30 70",
    "r3r1k1/pp3pbp/1qp3p1/2B5/2BP2b1/Q1n2N2/P4PPP/3R1K1R b - - 1 18",
];

pub fn pool() -> Vec<Pos> {
    let mut v = Vec::new();
    let mut bad = Vec::new();
    for f in CURATED {
        match Pos::from_fen(f) {
            Ok(p) if p.is_sane() && p.flip().is_sane() && p.to_fen() == *f => {
                let fl = p.flip();
                v.push(p);
                if !v.contains(&fl) {
                    v.push(fl);
                }
            }
            _ => bad.push(*f),
        }
    }
    assert!(bad.is_empty(), "pool entries not sane: {:?}", bad);
    v
}

/// Positions with a forced mate in exactly n (n = 1..3) for the side to move (curated; the
/// reference mate searcher re-verifies each one at start-up).
pub const MATES: &[(&str, u32)] = &[
    ("6k1/5ppp/8/8/8/8/8/R3K3 w - - 0 1", 1),
    ("7k/8/5K2/8/8/8/8/6Q1 w - - 4 30", 2),
    ("k7/8/1K6/8/8/8/8/7R w - - 0 1", 1),
    ("7k/8/6K1/8/8/8/8/R7 w - - 10 50", 1),
    ("r1bqkb1r/pppp1ppp/2n2n2/4p2Q/2B1P3/8/PPPP1PPP/RNB1K1NR w KQkq - 4 4", 1),
    ("6k1/5ppp/8/8/8/8/5PPP/3R2K1 w - - 0 1", 1),
    ("kbK5/pp6/1P6/8/8/8/8/R7 w - - 0 1", 2),
    ("8/8/8/8/8/2k5/1q6/K7 w - - 0 1", 0),
    ("2r3k1/5ppp/8/8/8/8/5PPP/6K1 b - - 0 1", 1),
    ("r5k1/5ppp/8/8/8/8/1Q3PPP/1R4K1 w - - 0 1", 0),
    ("5rk1/5ppp/8/8/8/8/Q4PPP/R5K1 w - - 0 1", 0),
    ("7k/6pp/8/8/8/8/8/KQ4R1 w - - 0 1", 0),
    ("8/8/8/8/8/5K2/8/4k2R w - - 0 1", 0),
    ("4k3/8/4K3/8/8/8/8/7R w - - 0 1", 1),
    ("3k4/8/3K4/8/8/8/8/6R1 w - - 0 1", 1),
    ("1k6/8/K7/8/8/8/8/7R w - - 0 1", 2),
    ("k7/8/2K5/8/8/8/8/1R6 w - - 0 1", 0),
    ("6k1/8/6K1/8/8/8/8/5R2 w - - 0 1", 2),
    ("7k/8/8/6K1/8/8/8/5Q2 w - - 0 1", 2),
    ("8/8/8/8/8/1k6/8/K1q5 b - - 0 1", 0),
    ("5k2/8/5K2/8/8/8/8/1Q6 w - - 0 1", 1),
    ("8/k7/2K5/8/8/8/8/1Q6 w - - 0 1", 2),
    ("k7/8/K7/8/8/8/8/6Q1 w - - 0 1", 1),
    ("7k/8/5K2/8/8/8/6R1/8 w - - 0 1", 0),
    ("7k/5K2/8/8/8/8/8/6R1 w - - 0 1", 1),
    ("6k1/4K3/8/8/8/8/8/5R1R w - - 0 1", 2),
    ("8/8/8/8/8/6k1/4r3/6K1 b - - 0 1", 0),
    ("8/8/8/8/8/5k2/7r/5K2 b - - 0 1", 0),
    ("4K3/7r/4k3/8/8/8/8/8 b - - 0 1", 0),
    ("5K2/8/5k2/8/8/8/8/r7 b - - 0 1", 1),
];

//! StreamSim — `PgnRawParser<R: Read>` over a faulty `Read`: planned read fragmentation,
//! chunk sizes, (observational) truncation and `ErrorKind::Interrupted` (C17).

use std::collections::HashMap;
use std::io::{ErrorKind, Read};
use std::panic::{catch_unwind, AssertUnwindSafe};

use inkayaku_board::Bitboard;
use inkayaku_pgn::reader::PgnRawParser;
use serde::{Deserialize, Serialize};
use serde_json::json;

use crate::boardsim::render;
use crate::common::{panic_message, RunResult, Violation};
use crate::refchess::{self, file_of, kind, Mv, Pos};
use crate::rng::{Fnv, Rng};

#[derive(Clone, Debug, Serialize, Deserialize, PartialEq)]
pub struct GameSpec {
    pub tags: Vec<(String, String)>,
    /// None = standard start position, Some = from-position game ([FEN] tag)
    pub start_fen: Option<String>,
    pub moves: Vec<String>,
    pub sans: Vec<String>,
    pub comments: Vec<Option<String>>,
    pub result: String,
}

#[derive(Clone, Debug, Serialize, Deserialize, PartialEq)]
pub struct StreamPlan {
    pub games: Vec<GameSpec>,
    pub trailing: u8,
    pub chunk_size: usize,
    /// per-call read maxima, used cyclically; 0 = "as much as fits"
    pub frag: Vec<usize>,
    /// observational: cut the source at this byte
    pub truncate_at: Option<usize>,
    /// observational: these read calls return ErrorKind::Interrupted
    pub interrupted_calls: Vec<usize>,
}

pub fn render_games(games: &[GameSpec], trailing: u8) -> String {
    let mut s = String::new();
    for (gi, g) in games.iter().enumerate() {
        for (k, v) in &g.tags {
            s.push_str(&format!("[{} \"{}\"]\n", k, v));
        }
        s.push('\n');
        let white_first = g.start_fen.as_ref().map_or(true, |f| f.split(' ').nth(1) == Some("w"));
        let first_no: u32 = g.start_fen.as_ref().and_then(|f| f.split(' ').nth(5)).and_then(|x| x.parse().ok()).unwrap_or(1);
        let mut after_comment = true; // at the start a black move carries "N..."
        for (i, san) in g.sans.iter().enumerate() {
            let ply = i as u32 + if white_first { 0 } else { 1 };
            let no = first_no + ply / 2;
            if ply % 2 == 0 {
                s.push_str(&format!("{}. ", no));
            } else if after_comment {
                s.push_str(&format!("{}... ", no));
            }
            s.push_str(san);
            s.push(' ');
            after_comment = false;
            if let Some(c) = &g.comments[i] {
                s.push_str(&format!("{{{}}} ", c));
                after_comment = true;
            }
        }
        s.push_str(&g.result);
        let last = gi + 1 == games.len();
        if !last {
            s.push_str("\n\n");
        } else {
            match trailing {
                0 => {}
                1 => s.push('\n'),
                _ => s.push_str("\n\n"),
            }
        }
    }
    s
}

fn gen_game(rng: &mut Rng, pool: &[Pos]) -> GameSpec {
    let from_pos = rng.chance(1, 4);
    let start = if from_pos {
        let mut tries = 0;
        loop {
            let p = rng.pick(pool).clone();
            tries += 1;
            if p.has_legal_move() || tries > 20 {
                break p;
            }
        }
    } else {
        Pos::start()
    };
    // keep the half-move clock inside the 12-bit range the board is specified for (0..4095)
    let start = {
        let mut s = start;
        s.half = s.half.min(3000);
        s
    };
    let len = *rng.pick(&[0usize, 1, 2, 5, 12, 30, 60, 120]);
    let mut cur = start.clone();
    let mut moves = Vec::new();
    let mut sans = Vec::new();
    for _ in 0..len {
        let legal = cur.legal_moves();
        if legal.is_empty() {
            break;
        }
        // bias towards castling, promotions and checks so that O-O, O-O-O, =Q, + and # occur
        let castle: Vec<&Mv> = legal.iter().filter(|m| kind(cur.board[m.from as usize]) == b'k' && (file_of(m.to) - file_of(m.from)).abs() == 2).collect();
        let promo: Vec<&Mv> = legal.iter().filter(|m| m.promo.is_some()).collect();
        let m = if !castle.is_empty() && rng.chance(2, 3) {
            **rng.pick(&castle)
        } else if !promo.is_empty() && rng.chance(1, 2) {
            **rng.pick(&promo)
        } else if rng.chance(1, 6) {
            // develop towards castling: prefer knight/bishop/e- or d-pawn moves early
            let dev: Vec<&Mv> = legal.iter().filter(|m| matches!(kind(cur.board[m.from as usize]), b'n' | b'b')).collect();
            if dev.is_empty() {
                *rng.pick(&legal)
            } else {
                **rng.pick(&dev)
            }
        } else {
            *rng.pick(&legal)
        };
        sans.push(cur.san(&m));
        moves.push(m.uci());
        cur = cur.apply(&m);
    }
    let result = if cur.is_mate() {
        if cur.white_to_move {
            "0-1"
        } else {
            "1-0"
        }
        .to_string()
    } else if cur.is_stalemate() {
        "1/2-1/2".to_string()
    } else {
        rng.pick(&["1-0", "0-1", "1/2-1/2", "*"]).to_string()
    };
    let with_clock = rng.chance(1, 2);
    let comments: Vec<Option<String>> = (0..sans.len())
        .map(|_| {
            if with_clock {
                Some(format!(" [%clk 0:{:02}:{:02}] ", rng.below(60), rng.below(60)))
            } else if rng.chance(1, 12) {
                Some(rng.pick(&[" [%eval 0.17] [%clk 0:00:30] ", "good move", " A00 Polish Opening ", "", " O-O would be 1-0 ; no ] [ "]).to_string())
            } else {
                None
            }
        })
        .collect();
    let mut tags: Vec<(String, String)> = vec![
        ("Event".into(), rng.pick(&["Rated Blitz game", "Rated Bullet tournament https://lichess.org/tournament/yc1WW2Ox", "Casual Correspondence game", "?"]).to_string()),
        ("Site".into(), format!("https://lichess.org/{:08x}", rng.below(u32::MAX as u64))),
        ("White".into(), rng.pick(&["BFG9k", "a", "Desmond_Wilson", "user-name_1"]).to_string()),
        ("Black".into(), rng.pick(&["mamalak", "Kozakmamay007", "x y", "?"]).to_string()),
        ("Result".into(), result.clone()),
    ];
    for (k, vs) in [
        ("UTCDate", &["2012.12.31", "2023.01.01"][..]),
        ("UTCTime", &["23:01:03", "00:00:00"][..]),
        ("WhiteElo", &["1639", "?"][..]),
        ("BlackElo", &["1403", "2950"][..]),
        ("WhiteRatingDiff", &["+5", "-12"][..]),
        ("ECO", &["C00", "?"][..]),
        ("Opening", &["French Defense: Normal Variation", "Sicilian Defense: Najdorf Variation, English Attack", "?"][..]),
        ("TimeControl", &["600+8", "60+0", "-"][..]),
        ("Termination", &["Normal", "Time forfeit", "Abandoned"][..]),
    ] {
        if rng.chance(3, 4) {
            tags.push((k.to_string(), rng.pick(vs).to_string()));
        }
    }
    if from_pos {
        tags.push(("FEN".into(), start.to_fen()));
        tags.push(("SetUp".into(), "1".into()));
    }
    GameSpec { tags, start_fen: if from_pos { Some(start.to_fen()) } else { None }, moves, sans, comments, result }
}

pub fn gen_plan(seed: u64, thorough: bool, pool: &[Pos]) -> StreamPlan {
    let mut rng = Rng::new(seed);
    let n = 1 + rng.usize_below(if thorough { 8 } else { 4 });
    let games: Vec<GameSpec> = (0..n).map(|_| gen_game(&mut rng, pool)).collect();
    let trailing = rng.below(3) as u8;
    let text_len = render_games(&games, trailing).len();
    let chunk_size = match rng.below(12) {
        0 => 1,
        1 => 2,
        2 => 3,
        3 => 5,
        4 => 8,
        5 => 64,
        6 => 8192,
        7 => text_len.saturating_sub(1).max(1),
        8 => text_len.max(1),
        9 => text_len + 1,
        _ => 1 + rng.usize_below(40),
    };
    let frag: Vec<usize> = match rng.below(6) {
        0 => vec![0],
        1 => vec![1],
        2 => vec![chunk_size.saturating_sub(1).max(1), 0],
        3 => (0..1 + rng.below(12)).map(|_| *rng.pick(&[1usize, 2, 3, 7, 0, 0])).collect(),
        4 => {
            // shrinking then growing reads (the parser shrinks its buffer on a short read)
            let mut v: Vec<usize> = (1..=chunk_size.min(9)).rev().collect();
            v.extend(1..=chunk_size.min(9));
            v.push(0);
            v
        }
        _ => (0..1 + rng.below(30)).map(|_| 1 + rng.usize_below(chunk_size.max(1))).collect(),
    };
    let truncate_at = if rng.chance(1, 4) && text_len > 0 { Some(rng.usize_below(text_len)) } else { None };
    let interrupted_calls = if rng.chance(1, 6) { (0..1 + rng.below(3)).map(|_| rng.usize_below(20)).collect() } else { vec![] };
    StreamPlan { games, trailing, chunk_size, frag, truncate_at, interrupted_calls }
}

pub struct FragReader<'a> {
    data: &'a [u8],
    pos: usize,
    frag: &'a [usize],
    call: usize,
    interrupted: &'a [usize],
    pub reads: u64,
    pub short_reads: u64,
    pub one_byte_reads: u64,
    pub interrupts_fired: u64,
    budget: u64,
    pub budget_exceeded: bool,
}

impl<'a> FragReader<'a> {
    pub fn new(data: &'a [u8], frag: &'a [usize], interrupted: &'a [usize]) -> Self {
        FragReader { data, pos: 0, frag, call: 0, interrupted, reads: 0, short_reads: 0, one_byte_reads: 0, interrupts_fired: 0, budget: data.len() as u64 * 3 + 1000, budget_exceeded: false }
    }
}

impl<'a> Read for FragReader<'a> {
    fn read(&mut self, buf: &mut [u8]) -> std::io::Result<usize> {
        self.reads += 1;
        if self.reads > self.budget {
            self.budget_exceeded = true;
            return Ok(0); // step budget: force termination
        }
        let k = self.call;
        self.call += 1;
        if self.interrupted.contains(&k) {
            self.interrupts_fired += 1;
            return Err(std::io::Error::new(ErrorKind::Interrupted, "simulated EINTR"));
        }
        let remaining = self.data.len() - self.pos;
        if remaining == 0 || buf.is_empty() {
            return Ok(0);
        }
        let want = if self.frag.is_empty() { 0 } else { self.frag[k % self.frag.len()] };
        let n = if want == 0 { buf.len() } else { want.min(buf.len()) }.min(remaining);
        buf[..n].copy_from_slice(&self.data[self.pos..self.pos + n]);
        self.pos += n;
        if n < buf.len() && self.pos < self.data.len() {
            self.short_reads += 1;
        }
        if n == 1 {
            self.one_byte_reads += 1;
        }
        Ok(n)
    }
}

type Parsed = Vec<Result<(HashMap<String, String>, Vec<(String, Option<String>)>), String>>;

fn parse_all(data: &[u8], chunk: usize, frag: &[usize], interrupted: &[usize], res: Option<&mut RunResult>) -> Result<(Parsed, bool), String> {
    let mut reader = FragReader::new(data, frag, interrupted);
    let out = catch_unwind(AssertUnwindSafe(|| {
        let parser = PgnRawParser::with_chunk_size(&mut reader, chunk.max(1));
        let mut v: Parsed = Vec::new();
        for item in parser {
            match item {
                Ok(g) => v.push(Ok((g.tag_pairs, g.moves.into_iter().map(|m| (m.mv, m.annotation)).collect()))),
                Err(e) => v.push(Err(format!("{:?}", e))),
            }
            if v.len() > 10_000 {
                break;
            }
        }
        v
    }));
    if let Some(r) = res {
        r.add("fault.short_read", reader.short_reads);
        r.add("fault.one_byte_read", reader.one_byte_reads);
        r.add("fault.interrupted_read", reader.interrupts_fired);
        r.add("reads", reader.reads);
    }
    match out {
        Ok(v) => Ok((v, reader.budget_exceeded)),
        Err(e) => Err(panic_message(&e)),
    }
}

pub fn exec_plan(plan: &StreamPlan) -> RunResult {
    let mut res = RunResult::default();
    let text = render_games(&plan.games, plan.trailing);
    let data = text.as_bytes();
    let mut log = Fnv::default();
    log.write(data);
    log.write_u64(plan.chunk_size as u64);
    for f in &plan.frag {
        log.write_u64(*f as u64);
    }
    let mut shape = Fnv::default();
    shape.write_u64(plan.games.len() as u64);
    shape.write_u64(plan.chunk_size.min(100) as u64);
    shape.write_u64(plan.frag.len() as u64);
    res.steps = data.len() as u64;
    res.nontrivial = plan.games.iter().any(|g| !g.sans.is_empty());
    res.hash = log.0;
    res.shape = shape.0;
    if let Err(v) = judge(plan, data, &mut res) {
        res.violation = Some(v);
    }
    observe(plan, data, &mut res);
    res
}

fn judge(plan: &StreamPlan, data: &[u8], res: &mut RunResult) -> Result<(), Violation> {
    let cfg = format!("chunk size {}, read pattern {:?}, {} games, trailing newlines {}", plan.chunk_size, &plan.frag[..plan.frag.len().min(12)], plan.games.len(), plan.trailing);
    let multi = json!(plan.games.len() > 1);
    let (got, over) = parse_all(data, plan.chunk_size, &plan.frag, &[], Some(res)).map_err(|m| Violation::new("C17", "reader_panic", format!("{}: {}", cfg, m)))?;
    if over {
        return Err(Violation::new("C17", "reader_does_not_terminate", format!("{}: more than 3x+1000 read calls for {} bytes", cfg, data.len())));
    }
    // (1) model
    if got.len() != plan.games.len() {
        let errs: Vec<&String> = got.iter().filter_map(|g| g.as_ref().err()).collect();
        return Err(Violation::new("C17", "game_count_mismatch", format!("{}: {} items yielded for {} games (errors: {:?})", cfg, got.len(), plan.games.len(), errs)).with("multi_game", multi).with("trailing", json!(plan.trailing)));
    }
    for (gi, (g, want)) in got.iter().zip(plan.games.iter()).enumerate() {
        let (tags, moves) = match g {
            Ok(x) => x,
            Err(e) => return Err(Violation::new("C17", "game_lost", format!("{}: game #{} yielded Err({})", cfg, gi, e)).with("multi_game", multi.clone()).with("last_game", json!(gi + 1 == plan.games.len())).with("trailing", json!(plan.trailing))),
        };
        let want_tags: HashMap<String, String> = want.tags.iter().cloned().collect();
        if *tags != want_tags {
            let missing: Vec<&String> = want_tags.keys().filter(|k| !tags.contains_key(*k)).collect();
            return Err(Violation::new("C17", "tag_pairs_mismatch", format!("{}: game #{} tags {:?} expected {:?} (missing {:?})", cfg, gi, tags, want_tags, missing)).with("multi_game", multi.clone()).with("first_game", json!(gi == 0)));
        }
        let got_sans: Vec<&String> = moves.iter().map(|m| &m.0).collect();
        let want_sans: Vec<&String> = want.sans.iter().collect();
        if got_sans != want_sans {
            let bare_black_castle = want.sans.iter().enumerate().any(|(i, s)| s.starts_with("O-O") && i >= got_sans.len());
            return Err(Violation::new("C17", "moves_mismatch", format!("{}: game #{} moves {:?} expected {:?}", cfg, gi, got_sans, want_sans)).with("multi_game", multi.clone()).with("castling_involved", json!(bare_black_castle)));
        }
        for (i, (m, c)) in moves.iter().zip(want.comments.iter()).enumerate() {
            if m.1 != *c {
                return Err(Violation::new("C17", "comment_mismatch", format!("{}: game #{} move #{} {} comment {:?} expected {:?}", cfg, gi, i, m.0, m.1, c)));
            }
        }
        if want.sans.iter().any(|s| s.starts_with("O-O")) {
            res.bump("probe.game_with_castling");
        }
        if want.sans.iter().any(|s| s.contains('=')) {
            res.bump("probe.game_with_promotion");
        }
        // (3) replay through the real SAN parser
        let start = want.start_fen.clone().unwrap_or_else(|| refchess::START_FEN.to_string());
        let mut b = Bitboard::from_fen_string(&start).map_err(|e| Violation::new("C12", "legal_fen_rejected", format!("{:?}", e)))?;
        let mut rf = Pos::from_fen(&start).map_err(|e| Violation::new("HARNESS", "bad_fen", e))?;
        for (i, m) in moves.iter().enumerate() {
            let mv = b.pgn_to_bb(&m.0).map_err(|_| Violation::new("C17", "replay_rejected_move", format!("{}: game #{} move #{} {:?} not accepted by pgn_to_bb at {}", cfg, gi, i, m.0, rf.to_fen())))?;
            b.make(mv);
            let u = Mv::parse(&want.moves[i]).ok_or_else(|| Violation::new("HARNESS", "bad_move", want.moves[i].clone()))?;
            rf = rf.apply(&u);
        }
        let end = render(&b).map_err(|e| Violation::new("C17", "replay_board_inconsistent", e))?;
        if end != rf {
            return Err(Violation::new("C17", "replay_diverged", format!("{}: game #{} replay ends at {} expected {}", cfg, gi, end.to_fen(), rf.to_fen())));
        }
        res.bump("games_checked");
        res.add("moves_replayed", moves.len() as u64);
    }
    // (2) differential: whole input in one read
    let (whole, _) = parse_all(data, data.len().max(1), &[0], &[], None).map_err(|m| Violation::new("C17", "reader_panic", format!("single read: {}", m)))?;
    let same = whole.len() == got.len()
        && whole.iter().zip(got.iter()).all(|(a, b)| match (a, b) {
            (Ok(x), Ok(y)) => x == y,
            (Err(x), Err(y)) => x == y,
            _ => false,
        });
    if !same {
        return Err(Violation::new("C17", "result_depends_on_chunking", format!("{}: differs from the result of one read of the whole input", cfg)));
    }
    Ok(())
}

/// Observational configurations: never a verdict, only counters in the evidence file.
fn observe(plan: &StreamPlan, data: &[u8], res: &mut RunResult) {
    if let Some(cut) = plan.truncate_at {
        let cut = cut.min(data.len());
        res.bump("fault.source_truncated");
        match parse_all(&data[..cut], plan.chunk_size, &plan.frag, &[], None) {
            Err(_) => res.bump("obs.truncated_panic"),
            Ok((v, over)) => {
                if over {
                    res.bump("obs.truncated_step_budget_exceeded");
                }
                // games wholly before the cut should come out intact
                let mut intact = 0;
                let mut offset = 0usize;
                for (gi, g) in plan.games.iter().enumerate() {
                    let one = render_games(std::slice::from_ref(g), 2);
                    offset += one.len();
                    if offset <= cut {
                        let ok = matches!(v.get(gi), Some(Ok((_, m))) if m.iter().map(|x| &x.0).eq(g.sans.iter()));
                        if ok {
                            intact += 1;
                        } else {
                            res.bump("obs.truncated_complete_game_damaged");
                        }
                    }
                }
                res.add("obs.truncated_complete_games_intact", intact);
                if v.len() > plan.games.len() {
                    res.bump("obs.truncated_invented_games");
                }
            }
        }
    }
    if !plan.interrupted_calls.is_empty() {
        match parse_all(data, plan.chunk_size, &plan.frag, &plan.interrupted_calls, None) {
            Err(_) => res.bump("obs.interrupted_panic"),
            Ok((v, _)) => {
                let clean = parse_all(data, plan.chunk_size, &plan.frag, &[], None).ok().map(|x| x.0);
                let same = clean.map_or(false, |c| {
                    c.len() == v.len()
                        && c.iter().zip(v.iter()).all(|(a, b)| match (a, b) {
                            (Ok(x), Ok(y)) => x == y,
                            (Err(x), Err(y)) => x == y,
                            _ => false,
                        })
                });
                res.bump(if same { "obs.interrupted_same_result" } else { "obs.interrupted_changed_result" });
            }
        }
    }
}

pub fn shrink_candidates(plan: &StreamPlan) -> Vec<StreamPlan> {
    let mut out = Vec::new();
    for i in 0..plan.games.len() {
        if plan.games.len() > 1 {
            let mut p = plan.clone();
            p.games.remove(i);
            out.push(p);
        }
    }
    for (i, g) in plan.games.iter().enumerate() {
        if !g.sans.is_empty() {
            for keep in [g.sans.len() / 2, g.sans.len() - 1] {
                let mut p = plan.clone();
                p.games[i].sans.truncate(keep);
                p.games[i].moves.truncate(keep);
                p.games[i].comments.truncate(keep);
                out.push(p);
            }
        }
        if g.comments.iter().any(|c| c.is_some()) {
            let mut p = plan.clone();
            for c in p.games[i].comments.iter_mut() {
                *c = None;
            }
            out.push(p);
        }
        if g.tags.len() > 1 {
            let mut p = plan.clone();
            p.games[i].tags.truncate(g.tags.len() / 2);
            p.games[i].start_fen = p.games[i].tags.iter().find(|t| t.0 == "FEN").map(|t| t.1.clone()).or(if g.start_fen.is_some() { None } else { None });
            if p.games[i].start_fen == g.start_fen {
                out.push(p);
            }
        }
    }
    if plan.frag != vec![0] {
        let mut p = plan.clone();
        p.frag = vec![0];
        out.push(p);
    }
    if plan.chunk_size != 8192 {
        let mut p = plan.clone();
        p.chunk_size = 8192;
        out.push(p);
    }
    if plan.truncate_at.is_some() || !plan.interrupted_calls.is_empty() {
        let mut p = plan.clone();
        p.truncate_at = None;
        p.interrupted_calls.clear();
        out.push(p);
    }
    out
}

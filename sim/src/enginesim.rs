//! EngineSim — the whole UCI engine (console reader -> parser -> Engine::accept -> mpsc ->
//! search thread -> console writer) under the lock-step scheduler, a simulated clock and a
//! protocol-conformant GUI model that injects faults. Decides C07 C08 C09 C10 C11 C15 C16.

use std::cell::RefCell;
use std::collections::BTreeMap;
use std::io::Error as IoError;
use std::sync::atomic::Ordering;
use std::sync::{Arc, Mutex};
use std::thread::JoinHandle;

use inkayaku_board::Bitboard;
use inkayaku_engine_core::{verif, Engine};
use inkayaku_uci::console::{ConsoleUciRx, ConsoleUciTx};
use inkayaku_uci::{Score, UciCommand, UciEngine};
use serde::{Deserialize, Serialize};
use serde_json::json;

use crate::common::{RunResult, Violation};
use crate::refchess::search::RefSearch;
use crate::refchess::{self, Mv, Pos};
use crate::rng::{Fnv, Rng};
use crate::sched::{set_role, Event, Hooks, MState, Role, Sched, TState};
use crate::uciref::{self, Expect, InfoLine, OutLine, RefCmd, RefGo};

// ------------------------------------------------------------------ plan

#[derive(Clone, Debug, Serialize, Deserialize, PartialEq)]
pub struct Knobs {
    pub poll_interval: u64,
    /// 0 = shipped default (10 000 000)
    pub tt_capacity: usize,
}

#[derive(Clone, Debug, Serialize, Deserialize, PartialEq)]
pub enum PosSpec {
    /// go without a position command (searches whatever the engine holds)
    Keep,
    Set { fen: Option<String>, moves: Vec<String> },
    /// previous position + engine's bestmove + its ponder move (else the i-th legal reply)
    Follow { reply: u32 },
    /// a position line the engine must not act on (parse error or illegal move in the list)
    Broken { line: String },
}

#[derive(Clone, Debug, Serialize, Deserialize, PartialEq)]
pub struct Ev {
    pub at_node: u64,
    pub lines: Vec<String>,
}

#[derive(Clone, Debug, Serialize, Deserialize, PartialEq)]
pub struct GoSpec {
    pub searchmoves_picks: Vec<u32>,
    pub ponder: bool,
    pub wtime: Option<i64>,
    pub btime: Option<i64>,
    pub winc: Option<i64>,
    pub binc: Option<i64>,
    pub movestogo: Option<u64>,
    pub depth: Option<u64>,
    pub nodes: Option<u64>,
    pub mate: Option<u64>,
    pub movetime: Option<i64>,
    pub infinite: bool,
    /// permutation seed for the order of the parameters and the spacing
    pub layout: u64,
}

#[derive(Clone, Debug, Serialize, Deserialize, PartialEq)]
pub struct Cycle {
    pub newgame: bool,
    pub pos: PosSpec,
    pub pre_lines: Vec<String>,
    pub go: GoSpec,
    pub ns_per_node: u64,
    pub gap_ns: u64,
    pub jumps: Vec<(u64, i64)>,
    pub stop_before_dequeue: bool,
    pub events: Vec<Ev>,
    pub post_lines: Vec<String>,
}

#[derive(Clone, Debug, Serialize, Deserialize, PartialEq)]
pub struct EnginePlan {
    pub focus: String,
    pub knobs: Knobs,
    pub cycles: Vec<Cycle>,
    /// C09 enumeration mode: execute the LAST cycle once per poll of a dry run and per interrupt kind
    #[serde(default)]
    pub enumerate_interrupts: bool,
    /// C11 twin mode: run the colour-flipped session on a second engine and compare
    #[serde(default)]
    pub twin: bool,
    /// C11: additionally play every position and its colour-flipped twin one after the other on ONE
    /// engine instance (whatever the instance latches at its first search must not break the symmetry)
    #[serde(default)]
    pub twin_inline: bool,
}

impl GoSpec {
    pub fn none() -> Self {
        GoSpec { searchmoves_picks: vec![], ponder: false, wtime: None, btime: None, winc: None, binc: None, movestogo: None, depth: None, nodes: None, mate: None, movetime: None, infinite: false, layout: 0 }
    }
    pub fn depth(d: u64) -> Self {
        GoSpec { depth: Some(d), ..GoSpec::none() }
    }
    /// does the search end by itself (depth or clock)?
    pub fn self_terminating(&self, white_to_move: bool) -> bool {
        self.depth.is_some() || self.movetime.is_some() || if white_to_move { self.wtime.is_some() } else { self.btime.is_some() }
    }
    /// upper bound (ms) on the thinking budget the engine may derive, None = no clock limit
    pub fn budget_ms(&self, white_to_move: bool) -> Option<i64> {
        if let Some(m) = self.movetime {
            return Some(m.max(0));
        }
        let (t, i) = if white_to_move { (self.wtime, self.winc) } else { (self.btime, self.binc) };
        t.map(|t| (2 * i.unwrap_or(0).max(0)).max(2 * t.max(0) / 60 + 1))
    }
}

// ------------------------------------------------------------------ session (threads + scheduler)

#[derive(Debug)]
pub enum Fail {
    Panic(Role, String),
    Timeout(String),
    Protocol(String),
}

pub struct Session {
    pub sched: Arc<Sched>,
    m_handle: Option<JoinHandle<()>>,
    cursor: usize,
    pub over: bool,
}

static CURRENT: Mutex<Option<Arc<Sched>>> = Mutex::new(None);

pub fn install_panic_hook() {
    std::panic::set_hook(Box::new(|info| {
        let r = crate::sched::role();
        if r == Role::S {
            return;
        }
        let msg = format!("{}", info);
        let cur = match CURRENT.lock() {
            Ok(g) => g.clone(),
            Err(p) => p.into_inner().clone(),
        };
        if let Some(s) = cur {
            let mut g = s.lock();
            if g.panicked.is_none() {
                g.panicked = Some((r, msg.clone()));
            }
            g.events.push(Event::Panic(r, msg));
            g.turn = Role::S;
            s.cv.notify_all();
        }
    }));
}


impl Session {
    pub fn start(knobs: &Knobs) -> Result<Session, Fail> {
        set_role(Role::S);
        let sched = Sched::new();
        {
            let mut c = match CURRENT.lock() {
                Ok(g) => g,
                Err(p) => p.into_inner(),
            };
            *c = Some(sched.clone());
        }
        verif::set_poll_interval(knobs.poll_interval.max(1));
        verif::set_tt_capacity(knobs.tt_capacity);
        verif::install(Arc::new(Hooks(sched.clone())));
        let s2 = sched.clone();
        let m_handle = std::thread::Builder::new()
            .name("M".into())
            .spawn(move || {
                set_role(Role::M);
                let so = s2.clone();
                let consumer = move |line: &str| so.log(Event::Out(crate::sched::role(), line.to_string()));
                let sd = s2.clone();
                let debug_consumer = move |line: &str| sd.log(Event::Debug(crate::sched::role(), line.to_string()));
                // mirrors engine_app/src/main.rs
                let tx = Arc::new(ConsoleUciTx::new(consumer, debug_consumer, false));
                let engine = RefCell::new(Engine::new(tx.clone(), false));
                let sr = s2.clone();
                let read = move || -> Result<String, IoError> {
                    let mut g = sr.lock();
                    g.m = MState::WaitingLine;
                    g.turn = Role::S;
                    sr.cv.notify_all();
                    // M never gives up on its own: only the scheduler (S) owns a real-time limit
                    loop {
                        match sr.wait_until(g, |s| s.turn == Role::M && s.line_for_m.is_some()) {
                            Ok(mut g) => {
                                g.m = MState::Running;
                                return Ok(g.line_for_m.take().unwrap_or_default());
                            }
                            Err(()) => g = sr.lock(),
                        }
                    }
                };
                let sc = s2.clone();
                let on_command = |command_result: Result<UciCommand, inkayaku_uci::console::ConsoleUciRxError>| match command_result {
                    Ok(command) => {
                        {
                            let mut g = sc.lock();
                            g.events.push(Event::Parsed(format!("Ok({:?})", command)));
                        }
                        if let UciCommand::SetDebug { debug } = command {
                            tx.set_debug(debug);
                        }
                        // setoption is parsed (C15) but not dispatched: Engine::accept is todo!() for it
                        if !matches!(command, UciCommand::SetOption { .. } | UciCommand::SetOptionValue { .. }) {
                            engine.borrow_mut().accept(command);
                        }
                    }
                    Err(error) => {
                        sc.log(Event::Parsed(format!("Err({:?})", error)));
                    }
                };
                ConsoleUciRx::new(read, on_command).start();
                let mut g = s2.lock();
                g.m = MState::Exited;
                g.events.push(Event::Exited);
                g.turn = Role::S;
                s2.cv.notify_all();
            })
            .map_err(|e| Fail::Protocol(format!("spawn: {}", e)))?;
        let mut sess = Session { sched, m_handle: Some(m_handle), cursor: 0, over: false };
        sess.wait(|s| s.m == MState::WaitingLine && s.t == TState::Idle)?;
        Ok(sess)
    }

    fn wait<F: Fn(&crate::sched::State) -> bool>(&mut self, cond: F) -> Result<(), Fail> {
        let g = self.sched.lock();
        let g = match self.sched.wait_until(g, |s| s.panicked.is_some() || cond(s)) {
            Ok(g) => g,
            Err(()) => {
                let st = self.sched.lock();
                return Err(Fail::Timeout(format!("scheduler wait exceeded the real-time limit (turn {:?}, M {:?}, T {:?}, undelivered messages {})", st.turn, st.m, st.t, st.pending)));
            }
        };
        if let Some((r, m)) = g.panicked.clone() {
            return Err(Fail::Panic(r, m));
        }
        Ok(())
    }

    pub fn t_state(&self) -> TState {
        self.sched.lock().t
    }
    pub fn m_state(&self) -> MState {
        self.sched.lock().m
    }

    /// Hand one line to M; returns when M is parked again (or joining/exited) and T is settled.
    pub fn feed(&mut self, line: &str) -> Result<(), Fail> {
        {
            let mut g = self.sched.lock();
            if g.m != MState::WaitingLine {
                return Err(Fail::Protocol(format!("feed while M is {:?}", g.m)));
            }
            g.events.push(Event::Fed(line.to_string()));
            g.line_for_m = Some(line.to_string());
            g.turn = Role::M;
            self.sched.cv.notify_all();
        }
        self.wait(|s| s.turn == Role::S && s.m != MState::Running)?;
        Ok(())
    }

    /// Release T until it parks again (poll with nodes >= next_event, or idle) or the session ends.
    pub fn release_t(&mut self, next_event: u64) -> Result<(), Fail> {
        {
            let mut g = self.sched.lock();
            match g.t {
                TState::AtPoll | TState::Idle => {
                    self.sched.next_event_node.store(next_event, Ordering::SeqCst);
                }
                other => return Err(Fail::Protocol(format!("release_t while T is {:?}", other))),
            }
            g.turn = Role::T;
            self.sched.cv.notify_all();
        }
        self.wait(|s| s.turn == Role::S || s.m == MState::Exited)?;
        if self.m_state() == MState::Exited {
            self.over = true;
        }
        Ok(())
    }

    pub fn new_events(&mut self) -> Vec<Event> {
        let g = self.sched.lock();
        let v = g.events[self.cursor..].to_vec();
        self.cursor = g.events.len();
        v
    }

    /// Feed a line while the engine is idle and let T consume whatever it produced.
    pub fn feed_idle(&mut self, line: &str) -> Result<(), Fail> {
        self.feed(line)?;
        self.settle_idle()
    }

    /// Let T consume every message that is already queued while it is idle.
    pub fn settle_idle(&mut self) -> Result<(), Fail> {
        // the idle thread looks into its channel, processes everything that is there and parks again
        if !self.over && self.t_state() == TState::Idle {
            self.release_t(u64::MAX)?;
        }
        Ok(())
    }

    /// quit and join. Safe to call in any parked state.
    pub fn quit(&mut self) -> Result<(), Fail> {
        if !self.over {
            self.feed("quit")?;
            let mut guard = 0;
            while self.m_state() != MState::Exited {
                let t = self.t_state();
                if t == TState::Idle || t == TState::AtPoll {
                    self.release_t(u64::MAX)?;
                } else {
                    self.wait(|s| s.m == MState::Exited || s.t == TState::Idle || s.t == TState::AtPoll)?;
                }
                guard += 1;
                if guard > 10_000 {
                    return Err(Fail::Timeout("quit did not terminate the session".into()));
                }
            }
            self.over = true;
        }
        if let Some(h) = self.m_handle.take() {
            let _ = h.join();
        }
        verif::uninstall();
        Ok(())
    }
}

// ------------------------------------------------------------------ GUI model + oracles

#[derive(Clone)]
pub struct CurPos {
    /// all positions of the game, root last
    pub line: Vec<Pos>,
    /// how the GUI would describe it
    pub fen: Option<String>,
    pub moves: Vec<String>,
}

impl CurPos {
    pub fn startpos() -> Self {
        CurPos { line: vec![Pos::start()], fen: None, moves: vec![] }
    }
    pub fn root(&self) -> &Pos {
        self.line.last().unwrap()
    }
    pub fn from_spec(fen: &Option<String>, moves: &[String]) -> Option<CurPos> {
        let start = match fen {
            None => Pos::start(),
            Some(f) => Pos::from_fen(f).ok()?,
        };
        let mut line = vec![start];
        for m in moves {
            let mv = Mv::parse(m)?;
            let cur = line.last().unwrap();
            if !cur.legal_moves().contains(&mv) {
                return None;
            }
            let n = cur.apply(&mv);
            line.push(n);
        }
        Some(CurPos { line, fen: fen.clone(), moves: moves.to_vec() })
    }
    pub fn render(&self) -> String {
        let mut s = match &self.fen {
            None => "position startpos".to_string(),
            Some(f) => format!("position fen {}", f),
        };
        if !self.moves.is_empty() {
            s.push_str(" moves ");
            s.push_str(&self.moves.join(" "));
        }
        s
    }
    pub fn has_repeated_position(&self) -> bool {
        let mut keys: Vec<String> = self.line.iter().map(|p| p.key()).collect();
        keys.sort();
        keys.windows(2).any(|w| w[0] == w[1])
    }
}

pub struct SearchWindow {
    pub outs: Vec<(Role, String)>,
    pub infos: Vec<InfoLine>,
    pub best: Option<(String, Option<String>)>,
    pub bestmove_count: usize,
    pub polls: Vec<(u64, usize, usize)>,
    pub idle_fen: Option<String>,
    pub stop_delivered_at: Option<u64>,
    pub ended_by_quit: bool,
    pub last_nodes_polled: u64,
}

type V = Violation;
fn viol(p: &str, c: &str, d: String) -> V {
    Violation::new(p, c, d)
}

pub struct Gui<'a> {
    pub sess: Session,
    pub cur: CurPos,
    pub res: &'a mut RunResult,
    pub log: Fnv,
    pub shape: Fnv,
    pub knobs: Knobs,
    pub last_best: Option<(String, Option<String>)>,
    pub focus: String,
    pub clock_ns: u64,
    pub debug_on: bool,
    /// who is blamed if the engine's position differs from the model at the next idle point
    pub blame_idle: (&'static str, &'static str),
    /// per search: (root FEN, last reported score as text, bestmove, depth limit of the go)
    pub summaries: Vec<(String, String, String, u64)>,
    /// a `position` line reached the engine while it was searching: what it holds afterwards is not
    /// specified (the shipped code ignores it) until the next position command given while idle
    pub cur_uncertain: bool,
    /// an idle-position mismatch seen during a search window, reported after the window's own oracles
    pub deferred_idle_mismatch: Option<V>,
}

fn fail_to_violation(f: Fail, focus_prop: &str, context: &str) -> V {
    match f {
        Fail::Panic(Role::M, msg) => viol("C15", "reader_thread_panic", format!("{}: {}", context, msg)).with("thread", json!("M")).with("site", json!(panic_site(&msg))),
        Fail::Panic(r, msg) => viol(focus_prop, "search_thread_panic", format!("{}: {}", context, msg)).with("thread", json!(format!("{:?}", r))).with("site", json!(panic_site(&msg))),
        Fail::Timeout(m) => viol("HARNESS", "scheduler_timeout", format!("{}: {}", context, m)),
        Fail::Protocol(m) => viol("HARNESS", "protocol", format!("{}: {}", context, m)),
    }
}

fn panic_site(msg: &str) -> String {
    // "panicked at path/file.rs:LINE:COL:" -> file name only (line numbers move with edits)
    if let Some(i) = msg.find("panicked at ") {
        let rest = &msg[i + 12..];
        let path = rest.split(':').next().unwrap_or("");
        return path.rsplit('/').next().unwrap_or(path).to_string();
    }
    "unknown".into()
}

impl<'a> Gui<'a> {
    pub fn start(knobs: &Knobs, focus: &str, res: &'a mut RunResult) -> Result<Gui<'a>, V> {
        let sess = Session::start(knobs).map_err(|f| fail_to_violation(f, "C07", "engine start-up"))?;
        let mut g = Gui { sess, cur: CurPos::startpos(), res, log: Fnv::default(), shape: Fnv::default(), knobs: knobs.clone(), last_best: None, focus: focus.to_string(), clock_ns: 1_000_000_000_000, debug_on: false, blame_idle: ("C09", "engine_position_changed"), summaries: Vec::new(), cur_uncertain: false, deferred_idle_mismatch: None };
        g.absorb_events(None)?;
        Ok(g)
    }

    /// Read new events into the log; check output grammar; optionally collect a search window.
    fn absorb_events(&mut self, mut win: Option<&mut SearchWindow>) -> Result<(), V> {
        for e in self.sess.new_events() {
            if std::env::var_os("VERIF_TRACE").is_some() {
                eprintln!("EV {:?}", e);
            }
            match e {
                Event::Fed(l) => self.log.write_str(&format!("F:{}", l)),
                Event::Parsed(p) => self.log.write_str(&format!("P:{}", p)),
                Event::Out(r, l) => {
                    self.log.write_str(&format!("O{:?}:{}", r, l));
                    self.res.bump("out_lines");
                    let parsed = uciref::parse_out(&l).map_err(|e| viol("C16", "malformed_output_line", format!("{:?}: {}", l, e)))?;
                    if let Some(w) = win.as_deref_mut() {
                        w.outs.push((r, l.clone()));
                        match parsed {
                            OutLine::Info(i) => w.infos.push(i),
                            OutLine::BestMove { best, ponder } => {
                                w.bestmove_count += 1;
                                w.best = Some((best, ponder));
                            }
                            _ => {}
                        }
                    } else if let OutLine::BestMove { .. } = parsed {
                        return Err(viol("C07", "bestmove_outside_search", format!("{:?} written while no search was running", l)));
                    }
                    if r == Role::M {
                        self.res.bump("probe.output_from_reader_thread");
                    } else {
                        self.res.bump("probe.output_from_search_thread");
                    }
                }
                Event::Debug(_, _) => self.res.bump("debug_lines"),
                Event::Poll { nodes, ply, iteration } => {
                    self.log.write_str(&format!("K:{}:{}:{}", nodes, ply, iteration));
                    self.shape.write_str(&format!("K{}:{}", ply, iteration));
                    if let Some(w) = win.as_deref_mut() {
                        w.polls.push((nodes, ply, iteration));
                        w.last_nodes_polled = nodes;
                    }
                }
                Event::IdleEnter(f) => {
                    self.log.write_str(&format!("I:{}", f));
                    if let Some(w) = win.as_deref_mut() {
                        w.idle_fen = Some(f.clone());
                    }
                    let want = self.cur.root().to_fen();
                    if f != want && !self.cur_uncertain {
                        let v = viol(self.blame_idle.0, self.blame_idle.1, format!("search thread idles on {} but the last accepted position is {}", f, want));
                        // in the exactness checks the search oracle speaks first: a search that ran on
                        // another position than the one set is a wrong score / wrong move there
                        if matches!(self.focus.as_str(), "C08" | "C11") && win.is_some() && self.deferred_idle_mismatch.is_none() {
                            self.deferred_idle_mismatch = Some(v);
                        } else {
                            return Err(v);
                        }
                    }
                }
                Event::IdleExit => {}
                Event::Joining => self.log.write_str("J"),
                Event::Exited => self.log.write_str("X"),
                Event::Panic(r, m) => {
                    return Err(fail_to_violation(Fail::Panic(r, m), "C07", "panic"));
                }
            }
        }
        Ok(())
    }

    /// Feed a line; check what the parser made of it (C15); keep `cur` in step.
    fn feed_checked(&mut self, line: &str, idle: bool) -> Result<(), V> {
        let expect = uciref::expect(line);
        let before = self.sess.sched.lock().events.len();
        let r = if idle { self.sess.feed_idle(line) } else { self.sess.feed(line) };
        r.map_err(|f| fail_to_violation(f, "C07", &format!("while feeding {:?}", line)))?;
        self.res.bump("lines_fed");
        // find the Parsed event
        let parsed: Option<String> = {
            let g = self.sess.sched.lock();
            g.events[before..].iter().find_map(|e| if let Event::Parsed(p) = e { Some(p.clone()) } else { None })
        };
        let parsed = parsed.ok_or_else(|| viol("HARNESS", "no_parse_event", format!("no parse result for {:?}", line)))?;
        match &expect {
            Expect::Exactly(c) => {
                let want = uciref::to_uci_command(c).ok_or_else(|| viol("HARNESS", "reference_conversion", format!("{:?}", c)))?;
                let want_s = format!("Ok({:?})", want);
                if parsed != want_s {
                    return Err(viol("C15", "command_misparsed", format!("line {:?} parsed as {} expected {}", line, parsed, want_s)).with("first_word", json!(uciref::first_word_kind(line))));
                }
                if let RefCmd::Position { fen, moves } = c {
                    match CurPos::from_spec(fen, moves) {
                        Some(cp) => {
                            if idle {
                                self.cur = cp;
                                self.cur_uncertain = false;
                            } else {
                                self.cur_uncertain = true;
                                self.res.bump("fault.position_command_during_search");
                            }
                        }
                        None => self.res.bump("fault.position_with_illegal_move_rejected"),
                    }
                }
                if let RefCmd::Debug(b) = c {
                    self.debug_on = *b;
                }
                if let RefCmd::UciNewGame = c {
                    // no property says what an engine holds after ucinewgame until the next position
                    // command: the GUI model sends the position again before it relies on it
                    self.cur_uncertain = true;
                }
            }
            Expect::MustErr => {
                if !parsed.starts_with("Err(") {
                    return Err(viol("C15", "malformed_line_accepted", format!("line {:?} must be a parse error but gave {}", line, parsed)));
                }
                self.res.bump("fault.line_rejected_by_parser");
            }
            Expect::Unspecified => {
                self.res.bump("probe.unspecified_line");
                if parsed.starts_with("Ok(") {
                    // must at least be the command its first word names; a position command that was
                    // accepted in a grey area would desynchronise the model, so generators avoid those
                    let kind = uciref::first_word_kind(line);
                    let ok = !kind.is_empty() && (parsed.starts_with(&format!("Ok({}", kind)) || (kind == "Register" && parsed.starts_with("Ok(Register")) || (kind == "SetOption" && parsed.starts_with("Ok(SetOption")) || (kind == "SetDebug" && parsed.starts_with("Ok(SetDebug")));
                    if !ok {
                        return Err(viol("C15", "line_misread_as_other_command", format!("line {:?} parsed as {}", line, parsed)));
                    }
                }
            }
        }
        Ok(())
    }

    fn idle_line(&mut self, line: &str) -> Result<(), V> {
        if uciref::first_word_kind(line) == "PositionFrom" {
            self.blame_idle = ("C13", "position_command_misapplied");
        }
        let r = self.feed_checked(line, true).and_then(|_| self.absorb_events(None));
        self.blame_idle = ("C09", "engine_position_changed");
        r
    }

    pub fn render_go(&self, g: &GoSpec) -> (RefGo, String) {
        let mut legal = self.cur.root().legal_moves();
        legal.sort_by_key(|m| m.uci());
        let mut rg = RefGo::empty();
        if !legal.is_empty() {
            for p in &g.searchmoves_picks {
                let m = legal[*p as usize % legal.len()].uci();
                if !rg.searchmoves.contains(&m) {
                    rg.searchmoves.push(m);
                }
            }
        }
        rg.ponder = g.ponder;
        rg.wtime = g.wtime;
        rg.btime = g.btime;
        rg.winc = g.winc;
        rg.binc = g.binc;
        rg.movestogo = g.movestogo;
        rg.depth = g.depth;
        rg.nodes = g.nodes;
        rg.mate = g.mate;
        rg.movetime = g.movetime;
        rg.infinite = g.infinite;
        let mut r = Rng::new(g.layout);
        let line = uciref::render_go(&rg, &mut r);
        let line = uciref::space_out(&line, &mut r);
        (rg, line)
    }

    /// One position/go/bestmove cycle. Returns the search window for further oracles.
    pub fn cycle(&mut self, c: &Cycle) -> Result<Option<SearchWindow>, V> {
        self.shape.write_str("cycle");
        if c.newgame {
            self.idle_line("ucinewgame")?;
        }
        if self.cur_uncertain && matches!(c.pos, PosSpec::Keep | PosSpec::Follow { .. } | PosSpec::Broken { .. }) {
            // the model does not know what the engine holds: the GUI sends the position again
            let line = self.cur.render();
            self.idle_line(&line)?;
        }
        match &c.pos {
            PosSpec::Keep => {}
            PosSpec::Set { fen, moves } => {
                let cp = CurPos::from_spec(fen, moves).ok_or_else(|| viol("HARNESS", "bad_plan_position", format!("{:?} {:?}", fen, moves)))?;
                let line = cp.render();
                self.idle_line(&line)?;
            }
            PosSpec::Follow { reply } => {
                if let Some((best, ponder)) = self.last_best.clone() {
                    let mut moves = self.cur.moves.clone();
                    let mut ok = false;
                    if let Some(bm) = Mv::parse(&best) {
                        if self.cur.root().legal_moves().contains(&bm) {
                            let after = self.cur.root().apply(&bm);
                            let mut replies = after.legal_moves();
                            replies.sort_by_key(|m| m.uci());
                            if !replies.is_empty() {
                                let rep = match ponder.as_ref().and_then(|p| Mv::parse(p)).filter(|p| replies.contains(p) && reply % 4 != 3) {
                                    Some(p) => {
                                        self.res.bump("probe.followed_ponder_move");
                                        p
                                    }
                                    None => replies[*reply as usize % replies.len()],
                                };
                                moves.push(best.clone());
                                moves.push(rep.uci());
                                ok = true;
                            }
                        }
                    }
                    if ok {
                        let cp = CurPos::from_spec(&self.cur.fen.clone(), &moves).ok_or_else(|| viol("HARNESS", "follow_position", "cannot build follow-up position".into()))?;
                        let line = cp.render();
                        self.idle_line(&line)?;
                    }
                }
            }
            PosSpec::Broken { line } => {
                self.res.bump("fault.broken_position_line");
                self.idle_line(line)?;
            }
        }
        for l in &c.pre_lines {
            self.idle_line(l)?;
        }
        // ---- go
        let root = self.cur.root().clone();
        let (rg, go_line) = self.render_go(&c.go);
        let poll = self.knobs.poll_interval;
        {
            let mut st = self.sess.sched.lock();
            self.clock_ns = self.clock_ns.max(st.last_now_ns) + c.gap_ns;
            st.clock_base_ns = self.clock_ns;
            st.ns_per_node = c.ns_per_node.max(1);
            st.jumps = c.jumps.clone();
        }
        self.feed_checked(&go_line, false)?;
        self.res.bump("searches");
        let mut win = SearchWindow { outs: vec![], infos: vec![], best: None, bestmove_count: 0, polls: vec![], idle_fen: None, stop_delivered_at: None, ended_by_quit: false, last_nodes_polled: 0 };
        self.absorb_events(Some(&mut win))?;
        if c.stop_before_dequeue {
            // the search thread has not looked into its channel yet: go and stop are both queued
            self.feed_checked("stop", false)?;
            self.res.bump("fault.stop_queued_before_go_dequeued");
            win.stop_delivered_at = Some(0);
        }
        // liveness limit in negamax nodes
        const HARD_CAP: u64 = 2_500_000;
        const SOFT_STOP: u64 = 300_000;
        let mut limit = HARD_CAP;
        // a clock that was set back (or a huge budget at a tiny node cost) legitimately keeps the
        // search going beyond the cap: then the GUI ends it with stop and nothing is concluded
        let mut clock_beyond_cap = false;
        if c.go.depth.is_none() {
            if let Some(b) = c.go.budget_ms(root.white_to_move) {
                let neg: i64 = c.jumps.iter().map(|j| (-j.1).max(0)).sum();
                let n_exp = ((b as u128 * 1_000_000 + neg as u128) / c.ns_per_node.max(1) as u128).min(u64::MAX as u128 / 2) as u64;
                let l = n_exp.saturating_add(2 * poll + 64);
                if l > SOFT_STOP {
                    // the GUI will not wait that long in node terms: it ends the search itself
                    clock_beyond_cap = true;
                    limit = limit.min(SOFT_STOP);
                }
                limit = limit.min(l);
            }
        }
        if win.stop_delivered_at.is_some() {
            limit = limit.min(poll + 64);
        }
        let mut events: Vec<Ev> = c.events.clone();
        events.sort_by_key(|e| e.at_node);
        let mut next_ev = 0usize;
        let mut guard = 0u64;
        // a search without a depth limit can race through thousands of iterations on a tiny tree
        // (e.g. a root whose every line is a repetition draw); the engine gets slower with every
        // iteration, so the GUI model looks at every poll and ends such a search itself
        const MAX_ITERATIONS: usize = 400;
        let watch_iterations = c.go.depth.is_none();
        let mut last_park = 0u64;
        loop {
            let mut next_node = events.get(next_ev).map_or(u64::MAX, |e| e.at_node).min(limit);
            if watch_iterations {
                next_node = next_node.min(last_park + 1);
            }
            self.sess.release_t(next_node).map_err(|f| fail_to_violation(f, "C07", &format!("during search of {} ({})", root.to_fen(), go_line.trim())))?;
            self.absorb_events(Some(&mut win))?;
            if self.sess.over {
                win.ended_by_quit = true;
                break;
            }
            let t = self.sess.t_state();
            if t == TState::Idle {
                // the search is over and the thread has already consumed whatever was still queued
                break;
            }
            if t != TState::AtPoll {
                return Err(viol("HARNESS", "unexpected_t_state", format!("{:?}", t)));
            }
            let (nodes, _, iteration) = self.sess.sched.lock().last_poll;
            last_park = nodes;
            self.res.bump("parks_at_poll");
            if watch_iterations && iteration >= MAX_ITERATIONS && win.stop_delivered_at.is_none() && !events[next_ev..].iter().any(|e| e.at_node <= nodes) {
                self.res.bump("probe.gui_stopped_runaway_iteration_count");
                self.feed_checked("stop", false)?;
                win.stop_delivered_at = Some(nodes);
                limit = limit.min(nodes + 64);
                self.absorb_events(Some(&mut win))?;
                continue;
            }
            // deliver due events
            let mut delivered = false;
            while next_ev < events.len() && events[next_ev].at_node <= nodes {
                let ev = events[next_ev].clone();
                next_ev += 1;
                for l in &ev.lines {
                    self.feed_checked(l, false)?;
                    delivered = true;
                    let kind = uciref::first_word_kind(l);
                    let well = matches!(uciref::expect(l), Expect::Exactly(_));
                    if well && (kind == "Stop" || kind == "Quit") {
                        if win.stop_delivered_at.is_none() {
                            win.stop_delivered_at = Some(nodes);
                            limit = limit.min(nodes + 64);
                        }
                        self.res.bump(if kind == "Stop" { "fault.stop_during_search" } else { "fault.quit_during_search" });
                        self.res.bump(&format!("probe.interrupt_at_ply_{}", self.sess.sched.lock().last_poll.1.min(9)));
                        self.res.bump(&format!("probe.interrupt_in_iteration_{}", self.sess.sched.lock().last_poll.2.min(9)));
                    } else if well {
                        self.res.bump(if kind == "UciNewGame" { "fault.ucinewgame_during_search" } else { "fault.line_during_search" });
                    } else {
                        self.res.bump("fault.corrupt_line_during_search");
                    }
                }
                self.absorb_events(Some(&mut win))?;
                if self.sess.m_state() == MState::Joining {
                    break;
                }
            }
            if !delivered && nodes >= limit && clock_beyond_cap && win.stop_delivered_at.is_none() {
                self.res.bump("probe.gui_stopped_search_with_clock_beyond_cap");
                self.feed_checked("stop", false)?;
                win.stop_delivered_at = Some(nodes);
                limit = nodes + 64;
                self.absorb_events(Some(&mut win))?;
                continue;
            }
            if !delivered && nodes >= limit {
                // liveness: the search should have ended by now
                let why = if win.stop_delivered_at.is_some() { "stop_or_quit_not_honoured" } else if limit < HARD_CAP && !clock_beyond_cap { "clock_expiry_not_honoured" } else { "search_did_not_terminate" };
                let v = viol("C07", why, format!("search of {} ({}) still running at negamax node {} (limit {}, poll interval {})", root.to_fen(), go_line.trim(), nodes, limit, poll));
                return Err(v);
            }
            guard += 1;
            if guard > 200_000 {
                return Err(viol("HARNESS", "poll_loop", "too many parks in one search".into()));
            }
        }
        // ---- oracles on the window
        if let Err(mut v) = self.judge_window(&root, &rg, c, &win) {
            // C09's text covers the follow-up search ("its bestmove is legal there and its depth-1
            // score equals that of a fresh engine"): in the C09 check a failed follow-up is a C09 violation
            if self.focus == "C09" && matches!(c.pos, PosSpec::Keep) && matches!(v.property.as_str(), "C07" | "C08" | "C10") {
                v.class = format!("follow_up_{}", v.class);
                v.detail = format!("[{} oracle, go without position after an interrupted search] {}", v.property, v.detail);
                v.property = "C09".into();
            }
            return Err(v);
        }
        if let Some(v) = self.deferred_idle_mismatch.take() {
            return Err(v);
        }
        self.sess.settle_idle().map_err(|f| fail_to_violation(f, "C07", "after search"))?;
        self.absorb_events(None)?;
        if let Some(b) = &win.best {
            self.last_best = Some(b.clone());
            let score = win.infos.iter().rev().find_map(|i| i.score_mate.map(|m| format!("mate {}", m)).or(i.score_cp.map(|c| format!("cp {}", c)))).unwrap_or_else(|| "none".into());
            self.summaries.push((root.to_fen(), score, b.0.clone(), c.go.depth.unwrap_or(0)));
        }
        if !self.sess.over {
            for l in &c.post_lines {
                self.idle_line(l)?;
            }
        }
        Ok(Some(win))
    }

    fn judge_window(&mut self, root: &Pos, rg: &RefGo, c: &Cycle, win: &SearchWindow) -> Result<(), V> {
        let _ = &self.cur_uncertain; // the search itself started from a known position (root)
        let ctx = format!("position {} go [{}]", root.to_fen(), uciref::render_go(rg, &mut Rng::new(1)));
        if win.bestmove_count != 1 {
            return Err(viol("C07", if win.bestmove_count == 0 { "no_bestmove" } else { "more_than_one_bestmove" }, format!("{}: {} bestmove lines", ctx, win.bestmove_count)));
        }
        let (best, ponder) = win.best.clone().unwrap();
        let legal = root.legal_moves();
        // in the exactness checks the exactness oracle speaks first (a search that ran on another
        // position than the one set shows there as a wrong score / a move that does not attain it)
        let exact_first = matches!(self.focus.as_str(), "C08" | "C11");
        if exact_first {
            self.exactness_clause(root, rg, c, win, &best, &ctx, &legal)?;
        }
        if legal.is_empty() {
            if best != "0000" {
                return Err(viol("C07", "move_in_terminal_position", format!("{}: bestmove {} but there is no legal move", ctx, best)));
            }
            self.res.bump("probe.terminal_root_answered_0000");
        } else {
            let history_threefold = refchess::occurrences(&self.cur.line, Pos::key) >= 3;
            if best == "0000" {
                let zero_budget = c.go.depth.is_none() && c.go.budget_ms(root.white_to_move).map_or(false, |b| b <= 1);
                return Err(viol("C07", "null_move_with_legal_moves", format!("{}: bestmove 0000 although {} legal moves exist", ctx, legal.len()))
                    .with("root_threefold", json!(history_threefold))
                    .with("zero_budget", json!(zero_budget)));
            }
            let bm = Mv::parse(&best).filter(|m| legal.contains(m));
            if bm.is_none() {
                return Err(viol("C07", "illegal_bestmove", format!("{}: bestmove {} is not legal", ctx, best)));
            }
            if !rg.searchmoves.is_empty() && !rg.searchmoves.contains(&best) {
                return Err(viol("C07", "bestmove_not_in_searchmoves", format!("{}: bestmove {} not among searchmoves {:?}", ctx, best, rg.searchmoves)));
            }
        }
        // ---- C16: monotone counters, legal PVs, bestmove/ponder from last pv
        let backward_jump = c.jumps.iter().any(|j| j.1 < 0);
        let (mut d0, mut n0, mut t0) = (0u64, 0u64, 0u64);
        let mut last_pv: Option<Vec<String>> = None;
        for i in &win.infos {
            if let Some(d) = i.depth {
                if d < d0 {
                    return Err(viol("C16", "depth_decreased", format!("{}: depth {} after {}", ctx, d, d0)));
                }
                d0 = d;
            }
            if let Some(n) = i.nodes {
                if n < n0 {
                    return Err(viol("C16", "nodes_decreased", format!("{}: nodes {} after {}", ctx, n, n0)));
                }
                n0 = n;
            }
            if let Some(t) = i.time {
                if t < t0 && !backward_jump {
                    return Err(viol("C16", "time_decreased", format!("{}: time {} after {}", ctx, t, t0)));
                }
                t0 = t0.max(t);
            }
            if let Some(pv) = &i.pv {
                let mut p = root.clone();
                for (k, m) in pv.iter().enumerate() {
                    let mv = Mv::parse(m).filter(|x| p.legal_moves().contains(x));
                    match mv {
                        Some(x) => p = p.apply(&x),
                        None => return Err(viol("C16", "illegal_pv", format!("{}: pv {:?} is not legal at move #{} ({})", ctx, pv, k, m))),
                    }
                }
                last_pv = Some(pv.clone());
            }
        }
        match &last_pv {
            Some(pv) => {
                if pv.first() != Some(&best) && best != "0000" {
                    return Err(viol("C16", "bestmove_not_first_pv_move", format!("{}: bestmove {} but last pv {:?}", ctx, best, pv)));
                }
                if best != "0000" && ponder.as_ref() != pv.get(1) {
                    return Err(viol("C16", "ponder_not_second_pv_move", format!("{}: ponder {:?} but last pv {:?}", ctx, ponder, pv)));
                }
            }
            None => {
                if let Some(p) = &ponder {
                    return Err(viol("C16", "ponder_without_pv", format!("{}: bestmove {} ponder {} but no pv was reported in this search", ctx, best, p)).with("best", json!(if best == "0000" { "0000" } else { "move" })));
                }
            }
        }
        if win.stop_delivered_at.is_some() {
            self.res.bump("probe.interrupted_search_answered");
        }
        // ---- C10 draw rules: bounds from the reference search with draw leaves valued -c / +c
        if self.focus == "C10" && !legal.is_empty() {
            if let Some(d) = c.go.depth {
                if (1..=3).contains(&d) && c.events.is_empty() && !c.stop_before_dequeue && refchess::occurrences(&self.cur.line, Pos::key) < 3 {
                    self.check_draw_rules(root, rg, d as u32, win, &ctx)?;
                }
            }
        }
        // ---- C09 follow-ups on positions WITH repetition history: "its depth-1 score equals that of a
        // fresh engine given that position" is checked through the draw-rule bounds
        if self.focus == "C09" && !legal.is_empty() && self.cur.has_repeated_position() && refchess::occurrences(&self.cur.line, Pos::key) < 3 {
            if let Some(d) = c.go.depth {
                if (1..=2).contains(&d) && c.events.is_empty() && !c.stop_before_dequeue && c.go.movetime.is_none() && c.go.wtime.is_none() && c.go.btime.is_none() {
                    self.check_draw_rules(root, rg, d as u32, win, &ctx)?;
                    self.res.bump("probe.follow_up_with_repetition_history");
                }
            }
        }
        // ---- C08 mate clause: a forced mate in N <= 3 must be announced as `mate N` by a depth 2N-1 search
        if matches!(self.focus.as_str(), "C08" | "C11") && !legal.is_empty() && piece_count(root) <= 8 {
            if let Some(d) = c.go.depth {
                let plain = c.events.is_empty() && !c.stop_before_dequeue && c.go.movetime.is_none() && c.go.wtime.is_none() && c.go.btime.is_none() && rg.searchmoves.is_empty();
                if plain && d % 2 == 1 && d <= 5 && !self.cur.has_repeated_position() && (self.focus == "C11" || root.half + (d as u32) < 90) {
                    let n = (d as u32 + 1) / 2;
                    let firsts = refchess::search::mate_in(root, n);
                    if !firsts.is_empty() {
                        self.res.bump(&format!("probe.forced_mate_in_{}_cycle", n));
                        let last = win.infos.iter().rev().find(|i| i.score_cp.is_some() || i.score_mate.is_some());
                        let announced = last.and_then(|i| i.score_mate);
                        if announced != Some(n as i64) {
                            // in the C11 check this is the "mating side receives a winning mate score" clause
                            return Err(viol(if self.focus == "C11" { "C11" } else { "C08" }, "forced_mate_not_announced", format!("{}: the reference proves mate in {} but the depth-{} search reports {:?}", ctx, n, d, last.map(|i| (i.score_cp, i.score_mate)))).with("n", json!(n)));
                        }
                        if !Mv::parse(&best).map_or(false, |m| firsts.contains(&m)) {
                            return Err(viol("C08", "bestmove_does_not_keep_the_mate", format!("{}: bestmove {} does not keep mate in {} (mating first moves: {:?})", ctx, best, n, firsts.iter().map(|m| m.uci()).collect::<Vec<_>>())).with("n", json!(n)));
                        }
                        if let Some(pv) = win.infos.iter().rev().find_map(|i| i.pv.clone()) {
                            let mut p = root.clone();
                            for m in &pv {
                                if let Some(x) = Mv::parse(m) {
                                    p = p.apply(&x);
                                }
                            }
                            if pv.len() as u32 != 2 * n - 1 || !p.is_mate() {
                                return Err(viol("C08", "mate_pv_not_a_mate", format!("{}: mate {} announced, pv {:?} has {} plies and ends in {}", ctx, n, pv, pv.len(), if p.is_mate() { "mate" } else { "no mate" })));
                            }
                        }
                    }
                }
            }
        }
        // ---- C08 exactness for shallow fixed-depth searches
        if !exact_first {
            self.exactness_clause(root, rg, c, win, &best, &ctx, &legal)?;
        }
        Ok(())
    }

    /// C08 exactness for shallow fixed-depth searches (also used by C09 follow-ups and C11).
    #[allow(clippy::too_many_arguments)]
    fn exactness_clause(&mut self, root: &Pos, rg: &RefGo, c: &Cycle, win: &SearchWindow, best: &str, ctx: &str, legal: &[Mv]) -> Result<(), V> {
        let exact_focus = matches!(self.focus.as_str(), "C08" | "C09" | "C11");
        if exact_focus && !legal.is_empty() {
            if let Some(d) = c.go.depth {
                // a clock next to the depth limit is fine as long as the iteration of the requested
                // depth was completed and reported (an expired clock may end the search earlier; then
                // the reported depth is smaller and nothing is demanded here)
                let timed = c.go.movetime.is_some() || c.go.wtime.is_some() || c.go.btime.is_some();
                let reached = win.infos.iter().rev().find(|i| i.score_cp.is_some() || i.score_mate.is_some()).map_or(false, |i| i.depth == Some(d));
                if timed && reached {
                    self.res.bump("probe.exactness_checked_on_timed_search");
                }
                let plain = (1..=3).contains(&d) && c.events.is_empty() && !c.stop_before_dequeue && c.jumps.is_empty() && (!timed || reached);
                if plain && root.half + (d as u32) < 45 && !self.cur.has_repeated_position() {
                    self.check_exact(root, rg, d as u32, win, &best, &ctx)?;
                }
            }
        }
        Ok(())
    }

    fn check_exact(&mut self, root: &Pos, rg: &RefGo, d: u32, win: &SearchWindow, best: &str, ctx: &str) -> Result<(), V> {
        let mut ev = |p: &Pos| -> i32 {
            match Bitboard::from_fen_string(&p.to_fen()) {
                Ok(b) => verif::static_eval(&b, true),
                Err(_) => 0,
            }
        };
        let sm: Option<Vec<Mv>> = if rg.searchmoves.is_empty() { None } else { Some(rg.searchmoves.iter().filter_map(|m| Mv::parse(m)).collect()) };
        let mut rs = RefSearch::new(&mut ev, verif::win_score(), self.cur.line.clone());
        rs.node_budget = 3_000_000;
        let (value, per_move) = rs.root(d, sm.as_deref());
        if rs.exhausted {
            self.res.bump("probe.reference_budget_exhausted");
            return Ok(());
        }
        self.res.bump("exact_score_comparisons");
        self.res.add("reference_nodes", rs.nodes + rs.qnodes);
        let root_bb = Bitboard::from_fen_string(&root.to_fen()).map_err(|e| viol("C12", "legal_fen_rejected", format!("{:?}", e)))?;
        let want = verif::score_from_value(value, &root_bb);
        let last = win.infos.iter().rev().find(|i| i.score_cp.is_some() || i.score_mate.is_some());
        let got = match last {
            Some(i) => {
                if let Some(m) = i.score_mate {
                    Score::Mate { mate_in: m as i32 }
                } else {
                    Score::Centipawn { score: i.score_cp.unwrap_or(0) as i32 }
                }
            }
            None => return Err(viol("C08", "no_score_reported", format!("{}: no info line with a score", ctx))),
        };
        if got != want {
            return Err(viol("C08", "score_not_minimax_value", format!("{}: engine reports {:?}, exact depth-{} minimax value is {:?} (raw {})", ctx, got, d, want, value)).with("depth", json!(d)));
        }
        let bm = Mv::parse(best);
        let bv = per_move.iter().find(|(m, _)| Some(*m) == bm).map(|x| x.1);
        if bv != Some(value) {
            return Err(viol("C08", "bestmove_does_not_attain_value", format!("{}: bestmove {} has exact value {:?}, root value {}", ctx, best, bv, value)).with("depth", json!(d)));
        }
        if let Score::Mate { mate_in } = want {
            self.res.bump("probe.mate_score_compared");
            if mate_in > 0 {
                // PV must be a legal line of 2N-1 plies ending in checkmate
                if let Some(pv) = win.infos.iter().rev().find_map(|i| i.pv.clone()) {
                    let mut p = root.clone();
                    for m in &pv {
                        if let Some(x) = Mv::parse(m) {
                            p = p.apply(&x);
                        }
                    }
                    if pv.len() as i32 != 2 * mate_in - 1 || !p.is_mate() {
                        return Err(viol("C08", "mate_pv_not_a_mate", format!("{}: mate {} announced, pv {:?} has {} plies and ends in {}", ctx, mate_in, pv, pv.len(), if p.is_mate() { "mate" } else { "no mate" })));
                    }
                }
            }
        }
        Ok(())
    }

    fn check_draw_rules(&mut self, root: &Pos, rg: &RefGo, d: u32, win: &SearchWindow, ctx: &str) -> Result<(), V> {
        let contempt = verif::default_contempt().abs();
        let sm: Option<Vec<Mv>> = if rg.searchmoves.is_empty() { None } else { Some(rg.searchmoves.iter().filter_map(|m| Mv::parse(m)).collect()) };
        // the two conventions for "same position" (FEN e.p. field vs. FIDE) must agree on this game,
        // otherwise the case is ambiguous and skipped
        if refchess::occurrences(&self.cur.line, Pos::key) != refchess::occurrences(&self.cur.line, Pos::key_fide) {
            self.res.bump("probe.ep_convention_ambiguous_skipped");
            return Ok(());
        }
        let mut bound = |draw: i32, res: &mut RunResult| -> Option<(i32, u64)> {
            let mut ev = |p: &Pos| -> i32 {
                if p.half >= 100 {
                    return 0; // fifty-move rule: 100 plies without capture or pawn move
                }
                match Bitboard::from_fen_string(&p.to_fen()) {
                    Ok(b) => verif::evaluate_ongoing(&b),
                    Err(_) => 0,
                }
            };
            let mut rs = RefSearch::new(&mut ev, verif::win_score(), self.cur.line.clone());
            rs.draw_root_view = Some(draw);
            rs.node_budget = 2_000_000;
            let (v, _) = rs.root(d, sm.as_deref());
            if rs.exhausted {
                res.bump("probe.reference_budget_exhausted");
                return None;
            }
            Some((v, rs.rep_leaves))
        };
        let (lo, reps) = match bound(-contempt, self.res) {
            Some(x) => x,
            None => return Ok(()),
        };
        let (hi, _) = match bound(contempt, self.res) {
            Some(x) => x,
            None => return Ok(()),
        };
        let last = win.infos.iter().rev().find(|i| i.score_cp.is_some() || i.score_mate.is_some());
        let root_bb = Bitboard::from_fen_string(&root.to_fen()).map_err(|e| viol("C12", "legal_fen_rejected", format!("{:?}", e)))?;
        let got = match last {
            Some(i) => {
                if let Some(m) = i.score_mate {
                    Score::Mate { mate_in: m as i32 }
                } else {
                    Score::Centipawn { score: i.score_cp.unwrap_or(0) as i32 }
                }
            }
            None => return Err(viol("C08", "no_score_reported", format!("{}: no info line with a score", ctx))),
        };
        let clock_region = root.half + d >= 100;
        let history_len = self.cur.line.len();
        self.res.bump("draw_rule_comparisons");
        if reps > 0 {
            self.res.bump("probe.repetition_leaf_in_reference_tree");
        }
        if root.half + d >= 50 && !clock_region {
            self.res.bump("probe.clock_between_50_and_99");
        }
        let ok = match (verif::score_from_value(lo, &root_bb), verif::score_from_value(hi, &root_bb), got) {
            (Score::Centipawn { score: l }, Score::Centipawn { score: h }, Score::Centipawn { score: g }) => l <= g && g <= h,
            (l, h, g) => l == g || h == g,
        };
        if clock_region && lo == hi && verif::is_checkmate_value(lo) && !ok {
            // a forced mate inside the horizon does not depend on how non-terminal leaves are valued:
            // terminal positions are never "fifty-move draws"
            return Err(viol("C10", "terminal_position_valued_as_fifty_move_draw", format!("{}: engine reports {:?} but the reference finds a forced mate (value {}) within depth {}; half-move clock {} at the root", ctx, got, lo, d, root.half)));
        }
        if clock_region {
            // at or beyond 100 plies the property only says a draw value MAY appear: observational
            self.res.bump(if ok { "probe.fifty_move_region_agrees" } else { "probe.fifty_move_region_differs" });
            return Ok(());
        }
        if !ok {
            let class = if reps == 0 && (lo == hi) {
                if root.half + d >= 40 && matches!(got, Score::Centipawn { score: 0 }) {
                    "fifty_move_draw_too_early"
                } else {
                    "value_differs_without_draw_in_reach"
                }
            } else {
                "repetition_value_out_of_bounds"
            };
            return Err(viol("C10", class, format!("{}: engine reports {:?}; reference depth-{} value lies in [{}, {}] (draw leaves valued -/+{} contempt, {} repetition leaves, half-move clock {} at the root, {} positions of history)", ctx, got, d, lo, hi, contempt, reps, root.half, history_len))
                .with("clock_ge_50", json!(root.half + d >= 50)));
        }
        Ok(())
    }

    pub fn finish(&mut self) -> Result<(), V> {
        let r = self.sess.quit();
        let a = self.absorb_events(None);
        r.map_err(|f| fail_to_violation(f, "C07", "quit"))?;
        a
    }
}

// ------------------------------------------------------------------ plan generation

const POLL_INTERVALS: &[u64] = &[512, 512, 1000, 4096, 25_000, 100_000];
const TT_CAPS: &[usize] = &[0, 0, 0, 1, 2, 7, 64, 1024];

pub fn piece_count(p: &Pos) -> usize {
    p.board.iter().filter(|&&x| x != 0).count()
}

pub fn max_depth_for(p: &Pos) -> u64 {
    let n = piece_count(p);
    if n <= 5 {
        5
    } else if n <= 10 {
        4
    } else {
        3
    }
}

/// Random legal play from a pool position; shuffle-biased so repetitions occur.
pub fn random_game(rng: &mut Rng, pool: &[Pos], max_len: usize, shuffle_bias: bool) -> CurPos {
    let mut start = rng.pick(pool).clone();
    if rng.chance(1, 10) {
        // games far beyond move 2500 (the engine indexes its position history by ply)
        start.full = *rng.pick(&[2400u32, 2498, 2499, 2500, 2501, 3000, 9000]);
    }
    let is_start = start == Pos::start();
    let fen = if is_start && rng.chance(1, 2) { None } else { Some(start.to_fen()) };
    let mut line = vec![start];
    let mut moves: Vec<String> = Vec::new();
    let len = rng.usize_below(max_len + 1);
    for _ in 0..len {
        let cur = line.last().unwrap().clone();
        let mut legal = cur.legal_moves();
        if legal.is_empty() {
            break;
        }
        legal.sort_by_key(|m| m.uci());
        let m = if shuffle_bias && rng.chance(2, 3) {
            // prefer undoing the move made two plies ago (piece shuffles), else a quiet piece move
            let back = if moves.len() >= 2 { Mv::parse(&moves[moves.len() - 2]).map(|m: Mv| Mv { from: m.to, to: m.from, promo: None }) } else { None };
            match back.filter(|b| legal.contains(b)) {
                Some(b) => b,
                None => {
                    let quiet: Vec<Mv> = legal.iter().copied().filter(|m| !cur.is_capture(m) && refchess::kind(cur.board[m.from as usize]) != b'p').collect();
                    if quiet.is_empty() {
                        *rng.pick(&legal)
                    } else {
                        *rng.pick(&quiet)
                    }
                }
            }
        } else {
            *rng.pick(&legal)
        };
        moves.push(m.uci());
        line.push(cur.apply(&m));
    }
    CurPos { line, fen, moves }
}

fn material(p: &Pos, white: bool) -> i32 {
    p.board
        .iter()
        .filter(|&&c| c != 0 && refchess::is_white(c) == white)
        .map(|&c| match refchess::kind(c) {
            b'q' => 9,
            b'r' => 5,
            b'b' | b'n' => 3,
            b'p' => 1,
            _ => 0,
        })
        .sum()
}

/// A game in which the side to move at the end is materially behind and has exactly one move that
/// completes a threefold repetition: P0 a b a' b' a b a' with the weaker side to play b' again.
pub fn repetition_game(rng: &mut Rng, imbalanced: &[Pos]) -> Option<CurPos> {
    for _ in 0..40 {
        let mut p0 = rng.pick(imbalanced).clone();
        if p0.ep.is_some() {
            continue;
        }
        p0.half = rng.below(20) as u32;
        let mut pre: Vec<String> = Vec::new();
        let stronger_white = material(&p0, true) > material(&p0, false);
        let mut line = vec![p0.clone()];
        if p0.white_to_move != stronger_white {
            // let the weaker side make one move first so that the stronger side starts the shuffle
            let legal = p0.legal_moves();
            if legal.is_empty() {
                continue;
            }
            let m = *rng.pick(&legal);
            pre.push(m.uci());
            let n = p0.apply(&m);
            line.push(n);
        }
        let base = line.last().unwrap().clone();
        let quiet = |p: &Pos| -> Vec<Mv> { p.legal_moves().into_iter().filter(|m| !p.is_capture(m) && refchess::kind(p.board[m.from as usize]) != b'p' && !(refchess::kind(p.board[m.from as usize]) == b'k' && (refchess::file_of(m.to) - refchess::file_of(m.from)).abs() == 2)).collect() };
        let qa = quiet(&base);
        if qa.is_empty() {
            continue;
        }
        let a = *rng.pick(&qa);
        let p1 = base.apply(&a);
        let qb = quiet(&p1);
        if qb.is_empty() {
            continue;
        }
        let b = *rng.pick(&qb);
        let inv = |m: &Mv| Mv { from: m.to, to: m.from, promo: None };
        let seq = [a, b, inv(&a), inv(&b), a, b, inv(&a)];
        let mut ok = true;
        let mut moves = pre.clone();
        for m in seq.iter() {
            let cur = line.last().unwrap().clone();
            if !cur.legal_moves().contains(m) || cur.is_capture(m) {
                ok = false;
                break;
            }
            moves.push(m.uci());
            line.push(cur.apply(m));
        }
        if !ok {
            continue;
        }
        let root = line.last().unwrap().clone();
        // b' must be legal now and lead to the third occurrence of `base`
        let back = inv(&b);
        if !root.legal_moves().contains(&back) {
            continue;
        }
        let mut probe = line.clone();
        probe.push(root.apply(&back));
        if refchess::occurrences(&probe, Pos::key) != 3 || refchess::occurrences(&line, Pos::key) >= 3 {
            continue;
        }
        // castling rights lost by the shuffle would make the positions differ: occurrences() checked that
        let start = line[0].clone();
        let fen = if start == Pos::start() { None } else { Some(start.to_fen()) };
        return Some(CurPos { line, fen, moves });
    }
    None
}

fn noise_line(rng: &mut Rng) -> String {
    match rng.below(8) {
        0 => "isready".into(),
        1 => "debug on".into(),
        2 => "debug off".into(),
        3 => "ponderhit".into(),
        4 => "uci".into(),
        5 => "register later".into(),
        6 => "stop".into(),
        _ => "ucinewgame".into(),
    }
}

/// A line with a definite expectation (Exactly / MustErr) that is not go/position/quit-affecting.
fn corrupt_noise(rng: &mut Rng) -> String {
    for _ in 0..20 {
        let base = match rng.below(5) {
            0 => "isready".to_string(),
            1 => "debug on".to_string(),
            2 => "stop".to_string(),
            3 => "go depth 3 wtime 1000".to_string(),
            _ => "position startpos moves e2e4 e7e5".to_string(),
        };
        let l = uciref::mutate_line(&base, rng);
        match uciref::expect(&l) {
            Expect::MustErr => return l,
            Expect::Exactly(c) => {
                // keep only harmless well-formed results
                if matches!(c, RefCmd::IsReady | RefCmd::Debug(_) | RefCmd::Uci | RefCmd::PonderHit) {
                    return l;
                }
            }
            Expect::Unspecified => {}
        }
    }
    "xyzzy".into()
}

fn broken_position(rng: &mut Rng, cur: &CurPos) -> String {
    // either an illegal move inside an otherwise fine list, or a corrupted line with a definite MustErr
    let mut moves = cur.moves.clone();
    if rng.chance(1, 3) {
        // the same game continued: all moves already set up, k new legal ones, then a bad one
        let mut line = cur.line.clone();
        for _ in 0..1 + rng.below(3) {
            let p = line.last().unwrap().clone();
            let mut legal = p.legal_moves();
            if legal.is_empty() {
                break;
            }
            legal.sort_by_key(|m| m.uci());
            let m = *rng.pick(&legal);
            moves.push(m.uci());
            line.push(p.apply(&m));
        }
        let bad = rng.pick(&["e1e8", "a1a1", "e7e8k", "h9h8", "b1b3", "a7a8q"]).to_string();
        let ill = Mv::parse(&bad).map_or(true, |m| !line.last().unwrap().legal_moves().contains(&m));
        if ill && moves.len() > cur.moves.len() {
            moves.push(bad);
            let mut s = match &cur.fen {
                None => "position startpos".to_string(),
                Some(f) => format!("position fen {}", f),
            };
            s.push_str(" moves ");
            s.push_str(&moves.join(" "));
            if uciref::expect(&s) != Expect::Unspecified {
                return s;
            }
        }
        moves = cur.moves.clone();
    }
    if rng.chance(1, 2) {
        let j = rng.usize_below(moves.len() + 1);
        let bad = rng.pick(&["e1e8", "a1a1", "e7e8k", "h9h8", "e2e5", "b1b3", "a7a8q", "e1g1"]).to_string();
        // make sure it really is illegal at index j
        let prefix: Vec<String> = moves[..j].to_vec();
        if let Some(cp) = CurPos::from_spec(&cur.fen, &prefix) {
            let ill = Mv::parse(&bad).map_or(true, |m| !cp.root().legal_moves().contains(&m));
            if ill && uciref::expect(&format!("position startpos moves {}", bad)) != Expect::Unspecified {
                moves.insert(j, bad);
                moves.truncate(j + 1 + rng.usize_below(3).min(moves.len() - j - 1));
                let mut s = match &cur.fen {
                    None => "position startpos".to_string(),
                    Some(f) => format!("position fen {}", f),
                };
                s.push_str(" moves ");
                s.push_str(&moves.join(" "));
                return s;
            }
        }
    }
    for _ in 0..20 {
        let l = uciref::mutate_line(&cur.render(), rng);
        if uciref::expect(&l) == Expect::MustErr {
            return l;
        }
    }
    "position".into()
}

pub fn gen_go(rng: &mut Rng, root: &Pos, kind: u64) -> GoSpec {
    let mut g = GoSpec::none();
    g.layout = rng.next_u64();
    let md = max_depth_for(root);
    let times: &[i64] = &[0, 1, 5, 30, 100, 1000, 10_000, 60_000, 600_000];
    match kind {
        0 => g.depth = Some(1 + rng.below(md)),
        1 => g.movetime = Some(*rng.pick(times)),
        2 => {
            g.wtime = Some(*rng.pick(times));
            g.btime = Some(*rng.pick(times));
            if rng.chance(2, 3) {
                g.winc = Some(*rng.pick(&[0i64, 0, 1, 100, 1000, 5000]));
                g.binc = Some(*rng.pick(&[0i64, 0, 1, 100, 1000, 5000]));
            }
            if rng.chance(1, 4) {
                g.movestogo = Some(1 + rng.below(40));
            }
        }
        3 => g.infinite = true,
        4 => {
            // parameters that are not limits in this engine
            match rng.below(4) {
                0 => g.ponder = true,
                1 => g.nodes = Some(1 + rng.below(100_000)),
                2 => g.mate = Some(1 + rng.below(5)),
                _ => g.movestogo = Some(1 + rng.below(30)),
            }
        }
        _ => {
            g.depth = Some(1 + rng.below(md));
            if rng.chance(1, 2) {
                g.movetime = Some(*rng.pick(times));
            }
            if rng.chance(1, 3) {
                g.wtime = Some(*rng.pick(times));
                g.btime = Some(*rng.pick(times));
            }
            // parameters that are no limits in this engine, next to real ones
            if rng.chance(1, 5) {
                g.nodes = Some(1 + rng.below(100_000));
            }
            if rng.chance(1, 5) {
                g.mate = Some(1 + rng.below(5));
            }
            if rng.chance(1, 5) {
                g.movestogo = Some(1 + rng.below(40));
            }
        }
    }
    if rng.chance(1, 4) {
        let n = 1 + rng.below(3);
        g.searchmoves_picks = (0..n).map(|_| rng.below(256) as u32).collect();
    }
    g
}

/// Marathon session: hundreds of short searches on ONE engine instance, each position searched once at
/// depth 2-3 and revisited exactly 256 searches later with `searchmoves` excluding nothing but one move
/// (whatever a counter, generation stamp or table carries over for N operations must not matter).
pub fn gen_plan_marathon(focus: &str, seed: u64, pool: &[Pos]) -> EnginePlan {
    let mut rng = Rng::new(seed);
    let knobs = Knobs { poll_interval: 100_000, tt_capacity: 0 };
    let first = 300usize;
    let mut firsts: Vec<(Option<String>, Vec<String>, u64)> = Vec::new();
    let quiet = |pos: PosSpec, go: GoSpec, newgame: bool| Cycle { newgame, pos, pre_lines: vec![], go, ns_per_node: 1000, gap_ns: 1_000_000, jumps: vec![], stop_before_dequeue: false, events: vec![], post_lines: vec![] };
    let mut cycles = Vec::new();
    for i in 0..first + 256 {
        // exactly 256 searches after the first visit, whatever was skipped in between
        let n = cycles.len();
        if n >= 256 && n - 256 < firsts.len() {
            let (fen, moves, d) = firsts[n - 256].clone();
            let mut g = GoSpec::depth(1 + rng.below(d));
            g.layout = rng.next_u64();
            g.searchmoves_picks = vec![rng.below(256) as u32];
            cycles.push(quiet(PosSpec::Set { fen, moves }, g, false));
            continue;
        }
        let game = random_game(&mut rng, pool, 6, false);
        if !game.root().has_legal_move() {
            continue;
        }
        let d = if piece_count(game.root()) > 14 { 2 } else { 2 + rng.below(2) };
        let mut g = GoSpec::depth(d);
        g.layout = rng.next_u64();
        if i < first {
            firsts.push((game.fen.clone(), game.moves.clone(), d));
        }
        cycles.push(quiet(PosSpec::Set { fen: game.fen.clone(), moves: game.moves.clone() }, g, i == 0));
    }
    EnginePlan { focus: focus.to_string(), knobs, cycles, enumerate_interrupts: false, twin: false, twin_inline: false }
}

/// Generic session plan (C07 / C16 / C15 engine level).
pub fn gen_plan(focus: &str, seed: u64, thorough: bool, pool: &[Pos]) -> EnginePlan {
    let mut rng = Rng::new(seed);
    if (focus == "C07" || focus == "C08") && rng.chance(1, 40) {
        return gen_plan_marathon(focus, rng.next_u64(), pool);
    }
    let fault_free = rng.chance(1, 4);
    let knobs = Knobs { poll_interval: *rng.pick(POLL_INTERVALS), tt_capacity: *rng.pick(TT_CAPS) };
    let n_cycles = 1 + rng.usize_below(if thorough { 8 } else { 5 });
    let mut cycles = Vec::new();
    let mut cur = CurPos::startpos();
    let mut have_best = false;
    // the legal part of the last rejected `position ... moves` list (same game, same FEN text)
    let mut rejected_prefix: Option<CurPos> = None;
    for ci in 0..n_cycles {
        let pos_draw = if focus == "C13" && !fault_free && rng.chance(1, 2) { 3 } else { rng.below(10) };
        let resume = rejected_prefix.take().filter(|_| rng.chance(1, 2));
        let pos = match pos_draw {
            _ if resume.is_some() => {
                // the GUI corrects itself: the list that was rejected, without its bad move (and
                // sometimes continued): it must be applied as a whole, whatever the engine kept of
                // the rejected one
                let mut g = resume.unwrap();
                for _ in 0..rng.below(3) {
                    let mut legal = g.root().legal_moves();
                    if legal.is_empty() {
                        break;
                    }
                    legal.sort_by_key(|m| m.uci());
                    let m = *rng.pick(&legal);
                    let mut moves = g.moves.clone();
                    moves.push(m.uci());
                    match CurPos::from_spec(&g.fen, &moves) {
                        Some(n) => g = n,
                        None => break,
                    }
                }
                let spec = PosSpec::Set { fen: g.fen.clone(), moves: g.moves.clone() };
                cur = g;
                spec
            }
            0 if ci > 0 => PosSpec::Keep,
            1 | 2 if have_best => PosSpec::Follow { reply: rng.below(64) as u32 },
            3 if !fault_free => {
                let line = broken_position(&mut rng, &cur);
                // remember the longest legal prefix of a rejected move list of the current game
                if let Some((head, list)) = line.split_once(" moves ") {
                    let same_game = head == cur.render().split(" moves ").next().unwrap_or("");
                    let toks: Vec<String> = list.split(' ').filter(|t| !t.is_empty()).map(str::to_string).collect();
                    if same_game {
                        let mut k = toks.len();
                        while k > cur.moves.len() {
                            if let Some(cp) = CurPos::from_spec(&cur.fen, &toks[..k].to_vec()) {
                                rejected_prefix = Some(cp);
                                break;
                            }
                            k -= 1;
                        }
                    }
                }
                PosSpec::Broken { line }
            }
            _ => {
                let max_len = if rng.chance(1, 3) { 40 } else { 10 };
                let bias = rng.chance(1, 2);
                let g = random_game(&mut rng, pool, max_len, bias);
                let spec = PosSpec::Set { fen: g.fen.clone(), moves: g.moves.clone() };
                cur = g;
                spec
            }
        };
        // Follow changes the position in a way only known at run time: the generator keeps `cur`
        // as an approximation for choosing depths only
        let root = cur.root().clone();
        let kind = rng.below(6);
        let go = gen_go(&mut rng, &root, kind);
        let self_term = go.self_terminating(root.white_to_move) && go.depth.is_some() || (go.depth.is_none() && go.budget_ms(root.white_to_move).is_some());
        // node cost so that clock budgets expire within a sane number of nodes
        let ns_per_node = match go.budget_ms(root.white_to_move) {
            Some(b) if go.depth.is_none() => {
                let target_nodes = *rng.pick(&[10u64, 600, 3000, 20_000, 120_000]);
                ((b.max(1) as u64 * 1_000_000) / target_nodes).max(1)
            }
            _ => *rng.pick(&[1u64, 100, 1000, 10_000, 1_000_000]),
        };
        let mut events = Vec::new();
        let mut jumps = Vec::new();
        let mut stop_before_dequeue = false;
        let mut pre_lines = Vec::new();
        let mut post_lines = Vec::new();
        if !fault_free {
            if rng.chance(1, 3) {
                for _ in 0..rng.below(3) {
                    pre_lines.push(if rng.chance(1, 2) { noise_line(&mut rng) } else { corrupt_noise(&mut rng) });
                }
            }
            if rng.chance(1, 4) {
                post_lines.push(if rng.chance(1, 2) { "stop".to_string() } else { noise_line(&mut rng) });
            }
            if rng.chance(1, 5) {
                let at = rng.below(50_000);
                let delta = *rng.pick(&[1_000_000i64, 1_000_000_000, 3_600_000_000_000, -1_000_000, -5_000_000_000]);
                jumps.push((at, delta));
            }
            if rng.chance(1, 10) {
                // a GUI that (against the protocol) sends a position while the engine searches
                let g = random_game(&mut rng, pool, 6, false);
                let at = *rng.pick(&[0u64, 600, 2000, 9000]);
                events.push(Ev { at_node: at + rng.below(300), lines: vec![g.render()] });
            }
            if rng.chance(1, 8) {
                // the GUI starts a new game while the engine is still searching (the next cycle sets
                // its position as usual): whatever the engine resets must not outlive that position
                let at = *rng.pick(&[0u64, 600, 2000, 9000]);
                events.push(Ev { at_node: at + rng.below(300), lines: vec!["ucinewgame".to_string()] });
            }
            if rng.chance(1, 3) {
                for _ in 0..1 + rng.below(3) {
                    let at = *rng.pick(&[0u64, 512, 1024, 3000, 10_000, 40_000, 150_000]);
                    let l = if rng.chance(1, 2) { noise_line(&mut rng) } else { corrupt_noise(&mut rng) };
                    if l != "stop" {
                        events.push(Ev { at_node: at + rng.below(500), lines: vec![l] });
                    }
                }
            }
            stop_before_dequeue = rng.chance(1, 12);
        }
        // every search that does not end by itself gets a stop; others get one sometimes
        let needs_stop = !self_term;
        if needs_stop || (!fault_free && rng.chance(1, 4)) {
            let at = *rng.pick(&[512u64, 600, 1500, 5000, 20_000, 60_000, 200_000]) + rng.below(1000);
            let mut lines = vec!["stop".to_string()];
            if rng.chance(1, 6) {
                lines.push("stop".to_string()); // back-to-back stops
            }
            events.push(Ev { at_node: at, lines });
        }
        cycles.push(Cycle { newgame: ci == 0 || rng.chance(1, 4), pos, pre_lines, go, ns_per_node, gap_ns: rng.below(5_000_000_000), jumps, stop_before_dequeue, events, post_lines });
        have_best = true;
    }
    if focus == "C09" && rng.chance(1, 3) {
        // interrupted search followed by `go depth 1` without position, on a position whose history
        // lets the weaker side force a repetition draw: the follow-up must still see that history
        let imb: Vec<Pos> = pool.iter().filter(|p| (material(p, true) - material(p, false)).abs() >= 3 && p.has_legal_move()).cloned().collect();
        if let Some(g) = repetition_game(&mut rng, &imb) {
            let mut go = GoSpec::none();
            go.infinite = true;
            go.layout = rng.next_u64();
            let at = *rng.pick(&[512u64, 700, 1500, 4000, 12_000]) + rng.below(400);
            let quiet = |pos: PosSpec, go: GoSpec, events: Vec<Ev>| Cycle { newgame: false, pos, pre_lines: vec![], go, ns_per_node: 1000, gap_ns: 1_000_000, jumps: vec![], stop_before_dequeue: false, events, post_lines: vec![] };
            cycles.push(quiet(PosSpec::Set { fen: g.fen.clone(), moves: g.moves.clone() }, go, vec![Ev { at_node: at, lines: vec!["stop".to_string()] }]));
            let mut d1 = GoSpec::depth(1);
            d1.layout = rng.next_u64();
            cycles.push(quiet(PosSpec::Keep, d1, vec![]));
            let mut d2 = GoSpec::depth(2);
            d2.layout = rng.next_u64();
            cycles.push(quiet(PosSpec::Keep, d2, vec![]));
        }
    }
    // sometimes quit in the middle of the last search
    if !fault_free && rng.chance(1, 6) {
        if let Some(last) = cycles.last_mut() {
            let at = *rng.pick(&[512u64, 2000, 9000, 30_000]);
            last.events.retain(|e| e.at_node < at);
            last.events.push(Ev { at_node: at, lines: vec!["quit".to_string()] });
            last.post_lines.clear();
        }
    }
    EnginePlan { focus: focus.to_string(), knobs, cycles, enumerate_interrupts: false, twin: false, twin_inline: false }
}

/// C08: fixed-depth exactness cycles on one engine instance, varied knobs.
pub fn gen_plan_exact(seed: u64, thorough: bool, pool: &[Pos], mates: &[(Pos, u32)], imbalanced: &[Pos]) -> EnginePlan {
    let mut rng = Rng::new(seed);
    let knobs = Knobs { poll_interval: *rng.pick(POLL_INTERVALS), tt_capacity: *rng.pick(TT_CAPS) };
    if rng.chance(1, 5) {
        // FEN walk: a shuffling game sent position by position as bare FENs (true clocks and move
        // numbers, no move list): each search starts from a position WITHOUT repetition history,
        // whatever the same engine instance was told or searched before
        // half of the walks are shuffles P0 a b a' b' a b a' in a materially unbalanced position: an
        // engine that kept the positions it was told before would see repetitions where, for a
        // position given as a bare FEN, there are none
        let shuffle = if rng.chance(1, 2) && !imbalanced.is_empty() { repetition_game(&mut rng, imbalanced) } else { None };
        let whole = shuffle.is_some();
        let game = match shuffle {
            Some(g) => g,
            None => random_game(&mut rng, pool, 14, true),
        };
        // a shuffle is walked from its first position (every repetition of it is then something the
        // engine was told before), other games over their last positions
        let from = if whole { 0 } else { game.line.len().saturating_sub(if thorough { 10 } else { 6 }) };
        let mut cycles = Vec::new();
        for (k, p) in game.line[from..].iter().enumerate() {
            if !p.has_legal_move() || p.half > 40 {
                continue;
            }
            let mut g = GoSpec::depth(1 + rng.below(if piece_count(p) > 16 { 2 } else { 3 }));
            g.layout = rng.next_u64();
            cycles.push(Cycle { newgame: k == 0 || rng.chance(1, 6), pos: PosSpec::Set { fen: Some(p.to_fen()), moves: vec![] }, pre_lines: vec![], go: g, ns_per_node: 1000, gap_ns: 1_000_000, jumps: vec![], stop_before_dequeue: false, events: vec![], post_lines: vec![] });
        }
        if cycles.len() >= 2 {
            return EnginePlan { focus: "C08".into(), knobs, cycles, enumerate_interrupts: false, twin: false, twin_inline: false };
        }
    }
    let n = 2 + rng.usize_below(if thorough { 8 } else { 4 });
    let mut cycles = Vec::new();
    for ci in 0..n {
        if rng.chance(1, 4) && !mates.is_empty() {
            let (p, nmate) = rng.pick(mates).clone();
            let mut g = GoSpec::depth(2 * nmate as u64 - 1);
            g.layout = rng.next_u64();
            cycles.push(Cycle { newgame: rng.chance(1, 3), pos: PosSpec::Set { fen: Some(p.to_fen()), moves: vec![] }, pre_lines: vec![], go: g, ns_per_node: 1000, gap_ns: 1_000_000, jumps: vec![], stop_before_dequeue: false, events: vec![], post_lines: vec![] });
            continue;
        }
        // "irrespective of what was searched before on the same engine instance": re-search the
        // same position (or the one two plies down the engine's own line) at another, usually
        // smaller, depth right after a deeper search
        if ci > 0 && rng.chance(1, 3) {
            if let Some(prev) = cycles.last().cloned() {
                let pd = prev.go.depth.unwrap_or(1);
                // (never deeper than 3: exact values and colour symmetry are only specified up to depth 3)
                let mut g = GoSpec::depth(if pd > 1 && rng.chance(2, 3) { 1 + rng.below((pd - 1).min(3)) } else { 1 + rng.below(3) });
                g.layout = rng.next_u64();
                let pos = match rng.below(3) {
                    0 => PosSpec::Keep,
                    1 => prev.pos.clone(),
                    _ => PosSpec::Follow { reply: rng.below(64) as u32 },
                };
                cycles.push(Cycle { newgame: false, pos, pre_lines: vec![], go: g, ns_per_node: 1000, gap_ns: 1_000_000, jumps: vec![], stop_before_dequeue: false, events: vec![], post_lines: vec![] });
                continue;
            }
        }
        let mut game = random_game(&mut rng, pool, 12, false);
        // the property wants clocks far from the fifty-move limit and no repetition history
        let mut tries = 0;
        while (game.has_repeated_position() || game.root().half > 40 || game.root().legal_moves().is_empty()) && tries < 20 {
            game = random_game(&mut rng, pool, 12, false);
            tries += 1;
        }
        if tries >= 20 {
            game = CurPos::startpos();
        }
        let root = game.root().clone();
        let dmax = if piece_count(&root) > 16 && !thorough { 2 } else { 3 };
        let mut g = GoSpec::depth(1 + rng.below(dmax));
        g.layout = rng.next_u64();
        if rng.chance(1, 6) {
            g.searchmoves_picks = (0..1 + rng.below(3)).map(|_| rng.below(256) as u32).collect();
        }
        // a depth limit next to a clock that is already used up, nearly used up, or comfortable
        if rng.chance(1, 5) {
            let times: &[i64] = &[0, 0, 1, 5, 100, 10_000, 600_000];
            if rng.chance(1, 2) {
                g.movetime = Some(*rng.pick(times));
            } else {
                g.wtime = Some(*rng.pick(times));
                g.btime = Some(*rng.pick(times));
                if rng.chance(1, 2) {
                    g.winc = Some(*rng.pick(&[0i64, 0, 100]));
                    g.binc = Some(*rng.pick(&[0i64, 0, 100]));
                }
            }
        }
        cycles.push(Cycle { newgame: ci == 0 || rng.chance(1, 4), pos: PosSpec::Set { fen: game.fen.clone(), moves: game.moves.clone() }, pre_lines: vec![], go: g, ns_per_node: *rng.pick(&[1u64, 1000, 1_000_000]), gap_ns: 1_000_000, jumps: vec![], stop_before_dequeue: false, events: vec![], post_lines: vec![] });
    }
    EnginePlan { focus: "C08".into(), knobs, cycles, enumerate_interrupts: false, twin: false, twin_inline: false }
}

/// C08 sessions with a disturbed history: "irrespective of what was searched before on the same
/// engine instance" includes an infinite search that was interrupted while a `position` command
/// for some other game arrived. The next cycle sets its own position and must be searched exactly.
pub fn gen_plan_exact_disturbed(seed: u64, thorough: bool, pool: &[Pos], mates: &[(Pos, u32)], imbalanced: &[Pos]) -> EnginePlan {
    let mut p = gen_plan_exact(seed, thorough, pool, mates, imbalanced);
    let mut rng = Rng::new(seed ^ 0xd157_0b3d);
    if !rng.chance(1, 4) {
        return p;
    }
    let targets: Vec<usize> = p.cycles.iter().enumerate().filter(|(_, c)| matches!(c.pos, PosSpec::Set { .. })).map(|(i, _)| i).collect();
    if targets.is_empty() {
        return p;
    }
    let at = *rng.pick(&targets);
    let searched = random_game(&mut rng, pool, 8, false);
    let other = random_game(&mut rng, pool, 8, false);
    if !searched.root().has_legal_move() {
        return p;
    }
    let mut g = GoSpec::none();
    g.infinite = true;
    g.layout = rng.next_u64();
    let poll = p.knobs.poll_interval;
    let quiet = |pos: PosSpec, go: GoSpec, events: Vec<Ev>| Cycle { newgame: false, pos, pre_lines: vec![], go, ns_per_node: 1000, gap_ns: 1_000_000, jumps: vec![], stop_before_dequeue: false, events, post_lines: vec![] };
    if rng.chance(1, 3) {
        // variant C: ucinewgame / another game's position / noise arrive during the search
        if let Some(d) = disturbance_cycle(&mut rng, pool, poll) {
            p.cycles.insert(at, d);
        }
        return p;
    }
    if rng.chance(1, 2) {
        // variant A: a position for another game arrives during the search
        let mut lines = vec![other.render()];
        if rng.chance(1, 2) {
            lines.push("stop".into());
        }
        let mut events = vec![Ev { at_node: poll * (1 + rng.below(3)), lines }];
        events.push(Ev { at_node: events[0].at_node + poll * rng.below(3), lines: vec!["stop".into()] });
        p.cycles.insert(at, quiet(PosSpec::Set { fen: searched.fen.clone(), moves: searched.moves.clone() }, g, events));
    } else {
        // variant B: the interrupted search is followed by a shallow search of the same position
        // without a new position command: it must be exact for that position
        let events = vec![Ev { at_node: poll * (1 + rng.below(4)), lines: vec!["stop".into()] }];
        let mut g2 = GoSpec::depth(1 + rng.below(if piece_count(searched.root()) > 16 { 2 } else { 3 }));
        g2.layout = rng.next_u64();
        if !searched.has_repeated_position() && searched.root().half <= 40 {
            p.cycles.insert(at, quiet(PosSpec::Keep, g2, vec![]));
            p.cycles.insert(at, quiet(PosSpec::Set { fen: searched.fen.clone(), moves: searched.moves.clone() }, g, events));
        }
    }
    p
}

/// C11: exactness-style sessions (no searchmoves) run on a position and its colour-flipped twin.
pub fn gen_plan_twin(seed: u64, thorough: bool, pool: &[Pos], mates: &[(Pos, u32)], imbalanced: &[Pos]) -> EnginePlan {
    let mut p = gen_plan_exact(seed, thorough, pool, mates, imbalanced);
    let mut rng = Rng::new(seed ^ 0x7717);
    for c in p.cycles.iter_mut() {
        c.go.searchmoves_picks.clear();
        // no clocks: the replicas may need different node counts for mirrored positions, so an
        // expiring clock could end them at different depths
        c.go.movetime = None;
        c.go.wtime = None;
        c.go.btime = None;
        c.go.winc = None;
        c.go.binc = None;
        // following the engine's own line would let the two replicas part ways on equal-valued
        // moves, which the property allows; re-search the same position instead
        if matches!(c.pos, PosSpec::Follow { .. }) {
            c.pos = PosSpec::Keep;
        }
        // some cycles with longer, repetition-laden histories (symmetry must hold there too)
        if rng.chance(1, 4) {
            let g = random_game(&mut rng, pool, 16, true);
            if g.root().has_legal_move() {
                c.pos = PosSpec::Set { fen: g.fen.clone(), moves: g.moves.clone() };
                c.go.depth = Some(1 + rng.below(if piece_count(g.root()) > 16 { 2 } else { 3 }));
            }
        }
    }
    // "a checkmated side always receives a losing mate score, the mating side a winning one":
    // also when the half-move clock is at the fifty-move boundary
    for c in p.cycles.iter_mut() {
        if let PosSpec::Set { fen: Some(f), moves } = &mut c.pos {
            if moves.is_empty() && c.go.depth.map_or(false, |d| d % 2 == 1) && rng.chance(1, 4) {
                if let Ok(mut q) = Pos::from_fen(f) {
                    if q.ep.is_none() && piece_count(&q) <= 8 {
                        q.half = 96 + rng.below(30) as u32;
                        q.full = q.full.max(q.half / 2 + 2);
                        *f = q.to_fen();
                    }
                }
            }
        }
    }
    p.focus = "C11".into();
    p.twin = true;
    p.twin_inline = rng.chance(1, 2);
    p
}

/// A search on some other position that is interrupted while protocol noise arrives: `ucinewgame`
/// (to be applied to the NEXT game, whose position the following cycle sets), a position of another
/// game, debug toggles. Whatever the engine defers from here must not leak into the next cycle.
fn disturbance_cycle(rng: &mut Rng, pool: &[Pos], poll: u64) -> Option<Cycle> {
    let searched = random_game(rng, pool, 8, false);
    if !searched.root().has_legal_move() {
        return None;
    }
    let mut g = GoSpec::none();
    g.infinite = true;
    g.layout = rng.next_u64();
    let mut lines: Vec<String> = Vec::new();
    if rng.chance(2, 3) {
        lines.push("ucinewgame".into());
    }
    if rng.chance(1, 4) {
        lines.push(random_game(rng, pool, 6, false).render());
    }
    if rng.chance(1, 4) {
        lines.push(if rng.chance(1, 2) { "debug on".into() } else { "isready".into() });
    }
    let at = poll * (1 + rng.below(3));
    let mut events = vec![Ev { at_node: at, lines }];
    events.push(Ev { at_node: at + poll * rng.below(3), lines: vec!["stop".into()] });
    Some(Cycle { newgame: false, pos: PosSpec::Set { fen: searched.fen.clone(), moves: searched.moves.clone() }, pre_lines: vec![], go: g, ns_per_node: 1000, gap_ns: 1_000_000, jumps: vec![], stop_before_dequeue: false, events, post_lines: vec![] })
}

/// C10: histories with repetitions and clocks 0..150 in materially imbalanced positions.
pub fn gen_plan_draw(seed: u64, thorough: bool, imbalanced: &[Pos]) -> EnginePlan {
    let mut rng = Rng::new(seed);
    let knobs = Knobs { poll_interval: *rng.pick(POLL_INTERVALS), tt_capacity: *rng.pick(TT_CAPS) };
    let n = 2 + rng.usize_below(if thorough { 6 } else { 3 });
    let mut cycles = Vec::new();
    let mut prev_game: Option<CurPos> = None;
    for ci in 0..n {
        // the GUI re-sends the running game as a FEN of a later position (true clocks and move
        // number, no move history before it): occurrences before the cut must no longer count
        if let Some(pg) = prev_game.clone().filter(|g| g.moves.len() >= 2) {
            if rng.chance(1, 3) {
                let j = 1 + rng.usize_below(pg.moves.len() - 1);
                let cut = pg.line[j].clone();
                let mut moves: Vec<String> = pg.moves[j..].to_vec();
                let keep = rng.usize_below(moves.len() + 1);
                moves.truncate(keep);
                if let Some(game) = CurPos::from_spec(&Some(cut.to_fen()), &moves) {
                    let mut go = GoSpec::depth(1 + rng.below(2));
                    go.layout = rng.next_u64();
                    if rng.chance(2, 3) && game.root().has_legal_move() {
                        go.depth = Some(1);
                        go.searchmoves_picks = vec![rng.below(256) as u32];
                    }
                    cycles.push(Cycle { newgame: rng.chance(1, 3), pos: PosSpec::Set { fen: game.fen.clone(), moves: game.moves.clone() }, pre_lines: vec![], go, ns_per_node: 1000, gap_ns: 1_000_000, jumps: vec![], stop_before_dequeue: false, events: vec![], post_lines: vec![] });
                    continue;
                }
            }
        }
        // start position: imbalanced pool entry, clock drawn from 0..150 half the time
        let mut start = rng.pick(imbalanced).clone();
        if rng.chance(1, 2) && start.ep.is_none() {
            start.half = rng.below(151) as u32;
            let ply = 2 * (start.full as u64 - 1) + if start.white_to_move { 0 } else { 1 };
            if (start.half as u64) > ply {
                start.full = start.half / 2 + 2;
            }
        }
        let one = [start];
        let max_len = *rng.pick(&[0usize, 4, 8, 12, 24]);
        let mut game = random_game(&mut rng, &one, max_len, true);
        if rng.chance(1, 4) {
            if let Some(g) = repetition_game(&mut rng, imbalanced) {
                game = g;
            }
        }
        prev_game = Some(CurPos { line: game.line.clone(), fen: game.fen.clone(), moves: game.moves.clone() });
        let root = game.root().clone();
        let legal = root.legal_moves();
        let mut go = GoSpec::depth(1 + rng.below(if piece_count(&root) > 12 { 2 } else { 3 }));
        go.layout = rng.next_u64();
        if !legal.is_empty() && rng.chance(1, 2) {
            go.depth = Some(1);
            go.searchmoves_picks = vec![rng.below(256) as u32];
        }
        let set_cycle = Cycle { newgame: ci == 0 || rng.chance(1, 4), pos: PosSpec::Set { fen: game.fen.clone(), moves: game.moves.clone() }, pre_lines: vec![], go, ns_per_node: 1000, gap_ns: 1_000_000, jumps: vec![], stop_before_dequeue: false, events: vec![], post_lines: vec![] };
        if rng.chance(1, 5) {
            if let Some(d) = disturbance_cycle(&mut rng, imbalanced, knobs.poll_interval) {
                cycles.push(d);
            }
        }
        cycles.push(set_cycle.clone());
        if rng.chance(1, 5) {
            // a position command the engine must reject (illegal move, possibly the very first one)
            // followed by go WITHOUT position: board and game history must both be the old ones
            let mut broken = set_cycle.clone();
            broken.newgame = false;
            broken.pos = PosSpec::Broken { line: broken_position(&mut rng, &game) };
            if rng.chance(1, 2) {
                let other = random_game(&mut rng, imbalanced, 6, true);
                let mut mv = other.moves.clone();
                mv.insert(rng.usize_below(mv.len() + 1).min(2), "h8h1".to_string());
                let bad_line = format!("{} moves {}", match &other.fen { None => "position startpos".to_string(), Some(f) => format!("position fen {}", f) }, mv.join(" "));
                if uciref::expect(&bad_line) != Expect::Unspecified && CurPos::from_spec(&other.fen, &mv).is_none() {
                    broken.pos = PosSpec::Broken { line: bad_line };
                }
            }
            cycles.push(broken);
        }
    }
    EnginePlan { focus: "C10".into(), knobs, cycles, enumerate_interrupts: false, twin: false, twin_inline: false }
}

/// C09: one plan = position + go; every poll of a dry run is an interruption point.
pub fn gen_plan_interrupt(seed: u64, thorough: bool, pool: &[Pos], imbalanced: &[Pos]) -> EnginePlan {
    let mut rng = Rng::new(seed);
    let knobs = Knobs { poll_interval: 512, tt_capacity: *rng.pick(&[0usize, 0, 64]) };
    let with_repetition = rng.chance(1, 3);
    let mut game = random_game(&mut rng, pool, if with_repetition { 16 } else { 10 }, with_repetition);
    let mut tries = 0;
    let unfit = |g: &CurPos, rep: bool| -> bool {
        let r = g.root();
        r.half > 30 || r.legal_moves().len() < 2 || if rep { !g.has_repeated_position() || refchess::occurrences(&g.line, Pos::key) >= 3 } else { g.has_repeated_position() }
    };
    while unfit(&game, with_repetition) && tries < 60 {
        game = random_game(&mut rng, pool, if with_repetition { 16 } else { 10 }, with_repetition);
        tries += 1;
    }
    if tries >= 60 {
        game = CurPos::startpos();
    }
    if with_repetition && rng.chance(2, 3) {
        // the weaker side to move can force a draw by repetition with exactly one move
        if let Some(g) = repetition_game(&mut rng, imbalanced) {
            game = g;
        }
    }
    let root = game.root().clone();
    let n = piece_count(&root);
    let depth = if n <= 6 { 5 } else if n <= 14 { 4 } else if thorough { 4 } else { 3 };
    let mut g = GoSpec::depth(depth);
    g.layout = rng.next_u64();
    let c = Cycle { newgame: true, pos: PosSpec::Set { fen: game.fen.clone(), moves: game.moves.clone() }, pre_lines: vec![], go: g, ns_per_node: 1000, gap_ns: 0, jumps: vec![], stop_before_dequeue: false, events: vec![], post_lines: vec![] };
    EnginePlan { focus: "C09".into(), knobs, cycles: vec![c], enumerate_interrupts: true, twin: false, twin_inline: false }
}

// ------------------------------------------------------------------ execution

fn flip_plan(plan: &EnginePlan) -> EnginePlan {
    let mut p = plan.clone();
    for c in p.cycles.iter_mut() {
        if let PosSpec::Set { fen, moves } = &mut c.pos {
            let start = match fen {
                None => Pos::start(),
                Some(f) => Pos::from_fen(f).unwrap_or_else(|_| Pos::start()),
            };
            *fen = Some(start.flip().to_fen());
            for m in moves.iter_mut() {
                *m = refchess::flip_uci(m);
            }
        }
    }
    p
}

/// C11 twin mode: engine A plays the session, engine B the colour-flipped session.
fn run_twin(plan: &EnginePlan, res: &mut RunResult) -> Result<(u64, u64, u64), V> {
    let mut sums: Vec<Vec<(String, String, String, u64)>> = Vec::new();
    let mut out = (0, 0, 0);
    for p in [plan.clone(), flip_plan(plan)] {
        let mut gui = Gui::start(&p.knobs, &p.focus, res)?;
        for c in &p.cycles {
            gui.cycle(c)?;
        }
        gui.finish()?;
        out = (out.0 ^ gui.log.0, out.1 ^ gui.shape.0, out.2 + gui.sess.sched.lock().last_now_ns.saturating_sub(1_000_000_000_000));
        sums.push(std::mem::take(&mut gui.summaries));
    }
    if sums[0].len() != sums[1].len() {
        return Err(viol("C11", "twin_sessions_differ_in_length", format!("{} vs {} searches", sums[0].len(), sums[1].len())));
    }
    let mut pairs: Vec<((String, String, String, u64), (String, String, String, u64))> = sums[0].iter().cloned().zip(sums[1].iter().cloned()).collect();
    if plan.twin_inline {
        // third session: position, twin, next position, its twin, ... on ONE engine instance
        let f = flip_plan(plan);
        let mut last: Option<(PosSpec, PosSpec)> = None;
        let mut cycles = Vec::new();
        for (a, b) in plan.cycles.iter().zip(f.cycles.iter()) {
            let (mut a, mut b) = (a.clone(), b.clone());
            match &a.pos {
                PosSpec::Set { .. } => last = Some((a.pos.clone(), b.pos.clone())),
                PosSpec::Keep => match &last {
                    Some((x, y)) => {
                        a.pos = x.clone();
                        b.pos = y.clone();
                    }
                    None => continue,
                },
                _ => continue,
            }
            // sometimes the twin goes first
            b.newgame = false;
            if cycles.len() % 4 == 2 {
                b.newgame = a.newgame;
                a.newgame = false;
                cycles.push(b);
                cycles.push(a);
            } else {
                cycles.push(a);
                cycles.push(b);
            }
        }
        let ip = EnginePlan { cycles, ..plan.clone() };
        let mut gui = Gui::start(&ip.knobs, &ip.focus, res)?;
        for c in &ip.cycles {
            gui.cycle(c)?;
        }
        gui.finish()?;
        out = (out.0 ^ gui.log.0, out.1 ^ gui.shape.0, out.2 + gui.sess.sched.lock().last_now_ns.saturating_sub(1_000_000_000_000));
        let s = std::mem::take(&mut gui.summaries);
        if s.len() != ip.cycles.len() {
            return Err(viol("C11", "twin_sessions_differ_in_length", format!("same-instance session: {} searches answered of {}", s.len(), ip.cycles.len())));
        }
        for k in 0..s.len() / 2 {
            res.bump("probe.twin_pair_on_one_instance");
            pairs.push((s[2 * k].clone(), s[2 * k + 1].clone()));
        }
    }
    for (a, b) in pairs.iter() {
        res.bump("twin_comparisons");
        // the full-move number legitimately differs by one along mirrored games (it advances after Black's move)
        let flipped_ok = match (Pos::from_fen(&a.0), Pos::from_fen(&b.0)) {
            (Ok(x), Ok(y)) => x.flip().key() == y.key() && x.half == y.half,
            _ => false,
        };
        if !flipped_ok {
            return Err(viol("HARNESS", "twin_positions_not_mirrored", format!("{} vs {}", a.0, b.0)));
        }
        if a.1.starts_with("mate") {
            res.bump("probe.twin_mate_score");
        }
        // the property speaks of depth <= 3; deeper searches (the depth-5 mate cycles) are compared
        // only where both replicas announce a mate (mate distance must be colour-symmetric)
        if a.3 > 3 && !(a.1.starts_with("mate") && b.1.starts_with("mate")) {
            res.bump("probe.twin_deeper_than_3_not_compared");
            continue;
        }
        if a.1 != b.1 {
            return Err(viol("C11", "search_score_not_colour_symmetric", format!("position {} scores [{}] (bestmove {}), its colour-flipped twin {} scores [{}] (bestmove {})", a.0, a.1, a.2, b.0, b.1, b.2)).with("mate", json!(a.1.starts_with("mate") || b.1.starts_with("mate"))));
        }
        if (a.2 == "0000") != (b.2 == "0000") {
            return Err(viol("C11", "twin_bestmove_nullness_differs", format!("{} -> {}, twin {} -> {}", a.0, a.2, b.0, b.2)));
        }
    }
    Ok(out)
}

fn run_session(plan: &EnginePlan, res: &mut RunResult) -> Result<(u64, u64, u64), V> {
    let mut gui = Gui::start(&plan.knobs, &plan.focus, res)?;
    for c in &plan.cycles {
        gui.cycle(c)?;
        if gui.sess.over {
            break;
        }
    }
    gui.finish()?;
    let st = gui.sess.sched.lock();
    let sim_ns = st.last_now_ns.saturating_sub(1_000_000_000_000);
    drop(st);
    Ok((gui.log.0 ^ sim_ns, gui.shape.0, sim_ns))
}

/// C09 enumeration: dry run to learn the poll nodes, then one session per (poll, kind).
fn run_enumeration(plan: &EnginePlan, res: &mut RunResult) -> Result<(u64, u64, u64), V> {
    let base = plan.cycles.last().cloned().ok_or_else(|| viol("HARNESS", "empty_plan", "".into()))?;
    // dry run: park at every poll
    let polls: Vec<(u64, usize, usize)> = {
        let mut gui = Gui::start(&plan.knobs, &plan.focus, res)?;
        let mut c = base.clone();
        // an event far beyond the search makes T park at every poll (next_event_node = 0 is set below)
        c.events = vec![];
        let mut dry = c.clone();
        dry.events = (0..4000u64).map(|i| Ev { at_node: i * plan.knobs.poll_interval, lines: vec![] }).collect();
        let w = gui.cycle(&dry)?.unwrap();
        gui.finish()?;
        w.polls
    };
    res.add("interruption_points", polls.len() as u64);
    let mut h = Fnv::default();
    let mut shape = Fnv::default();
    let mut sim_total = 0u64;
    let mut distinct_sessions: std::collections::HashSet<u64> = std::collections::HashSet::new();
    let max_points = 400;
    let step = (polls.len() / max_points).max(1);
    if step > 1 {
        res.bump("plans_with_thinned_interruption_points");
    }
    for (idx, (nodes, ply, iteration)) in polls.iter().enumerate() {
        if idx % step != 0 {
            continue;
        }
        for kind in 0..3 {
            let mut c = base.clone();
            let mut follow: Vec<Cycle> = Vec::new();
            match kind {
                0 => {
                    c.events = vec![Ev { at_node: *nodes, lines: vec!["stop".into()] }];
                    if idx % 2 == 1 {
                        // a redundant second stop arriving after the bestmove (engine idle)
                        c.post_lines = vec!["stop".into()];
                    }
                }
                1 => c.events = vec![Ev { at_node: *nodes, lines: vec!["quit".into()] }],
                _ => {
                    // sudden simulated-clock expiry of movetime observed exactly at this poll:
                    // nodes cost 1 ns each, the clock jumps forward by an hour at node p_i
                    c.go.movetime = Some(1000);
                    c.ns_per_node = 1;
                    c.jumps = vec![(*nodes, 3_600_000_000_000)];
                }
            }
            if kind != 1 {
                let mut d1 = GoSpec::depth(1);
                d1.layout = *nodes;
                let keep = |go: GoSpec, events: Vec<Ev>| Cycle { newgame: false, pos: PosSpec::Keep, pre_lines: vec![], go, ns_per_node: 1000, gap_ns: 1000, jumps: vec![], stop_before_dequeue: false, events, post_lines: vec![] };
                follow.push(keep(d1.clone(), vec![]));
                // second and third interrupted search, then depth 1 again
                let again_at = polls[(idx * 7 + 3) % polls.len()].0;
                follow.push(keep(base.go.clone(), vec![Ev { at_node: again_at, lines: vec!["stop".into()] }]));
                follow.push(keep(base.go.clone(), vec![Ev { at_node: *nodes, lines: vec!["stop".into()] }]));
                follow.push(keep(d1, vec![]));
            }
            res.bump(&format!("fault.interrupt_kind_{}", ["stop", "quit", "movetime_expiry"][kind]));
            res.bump(&format!("probe.enumerated_interrupt_at_ply_{}", (*ply).min(9)));
            res.bump(&format!("probe.enumerated_interrupt_in_iteration_{}", (*iteration).min(9)));
            let mut gui = Gui::start(&plan.knobs, &plan.focus, res)?;
            let ctx = |v: V| v.with("interrupt_kind", json!(["stop", "quit", "movetime_expiry"][kind])).with("at_ply_ge_1", json!(*ply >= 1));
            gui.cycle(&c).map_err(ctx)?;
            for f in &follow {
                if gui.sess.over {
                    break;
                }
                gui.cycle(f).map_err(ctx)?;
            }
            gui.finish().map_err(ctx)?;
            sim_total += gui.sess.sched.lock().last_now_ns.saturating_sub(1_000_000_000_000);
            h.write_u64(gui.log.0);
            shape.write_u64(gui.shape.0);
            distinct_sessions.insert(gui.log.0);
            res.bump("interrupted_sessions");
        }
    }
    res.add("distinct_interrupted_sessions", distinct_sessions.len() as u64);
    Ok((h.0, shape.0, sim_total))
}

pub fn exec_plan(plan: &EnginePlan) -> RunResult {
    let mut res = RunResult::default();
    let focus = plan.focus.clone();
    let out = if plan.enumerate_interrupts {
        run_enumeration(plan, &mut res)
    } else if plan.twin {
        run_twin(plan, &mut res)
    } else {
        run_session(plan, &mut res)
    };
    res.steps = res.counters.get("lines_fed").copied().unwrap_or(0);
    res.nontrivial = res.counters.get("searches").copied().unwrap_or(0) >= 1;
    match out {
        Ok((h, s, ns)) => {
            res.hash = h;
            res.shape = s;
            res.sim_ns = ns;
        }
        Err(v) => {
            if v.property == focus {
                res.violation = Some(v);
            } else if equivalent_focus(&focus, &v.property) {
                let mut v = v;
                v.class = format!("follow_up_{}", v.class);
                v.detail = format!("[{} oracle] {}", v.property, v.detail);
                v.property = focus.clone();
                res.violation = Some(v);
            } else {
                res.foreign = Some(v);
            }
        }
    }
    res
}

fn equivalent_focus(focus: &str, prop: &str) -> bool {
    // engine-level checks that own more than one oracle
    // C09's text covers the follow-up search too ("its bestmove is legal there"): a failed follow-up
    // after an interruption is a C09 violation in the enumeration check
    matches!((focus, prop), ("C09", "C07"))
}

pub fn shrink_candidates(plan: &EnginePlan) -> Vec<EnginePlan> {
    let mut out = Vec::new();
    // drop whole cycles
    for i in 0..plan.cycles.len() {
        if plan.cycles.len() > 1 {
            let mut p = plan.clone();
            p.cycles.remove(i);
            out.push(p);
        }
    }
    for (i, c) in plan.cycles.iter().enumerate() {
        let mut push = |f: &dyn Fn(&mut Cycle)| {
            let mut p = plan.clone();
            f(&mut p.cycles[i]);
            if p != *plan {
                out.push(p);
            }
        };
        push(&|c| c.pre_lines.clear());
        push(&|c| c.post_lines.clear());
        push(&|c| c.jumps.clear());
        push(&|c| c.newgame = false);
        push(&|c| c.stop_before_dequeue = false);
        push(&|c| c.go.searchmoves_picks.clear());
        push(&|c| {
            if let Some(d) = c.go.depth {
                if d > 1 {
                    c.go.depth = Some(d - 1);
                }
            }
        });
        for j in 0..c.events.len() {
            push(&|c| {
                c.events.remove(j);
            });
        }
        push(&|c| {
            if let PosSpec::Set { moves, .. } = &mut c.pos {
                let n = moves.len();
                moves.truncate(n / 2);
            }
        });
        push(&|c| {
            if let PosSpec::Set { moves, .. } = &mut c.pos {
                moves.pop();
            }
        });
        push(&|c| {
            if let PosSpec::Set { fen, moves } = &mut c.pos {
                *fen = None;
                moves.clear();
            }
        });
    }
    if plan.knobs.tt_capacity != 0 {
        let mut p = plan.clone();
        p.knobs.tt_capacity = 0;
        out.push(p);
    }
    out
}

#[allow(dead_code)]
fn _unused(_: BTreeMap<String, String>) {}

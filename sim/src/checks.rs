//! Table of checks (one per claimed property) and dispatch to the simulators.

use serde::{Deserialize, Serialize};

use crate::boardsim::{self, BoardPlan};
use crate::common::RunResult;
use crate::refchess::Pos;

#[derive(Clone, Debug, Serialize, Deserialize, PartialEq)]
#[serde(tag = "sim")]
pub enum Plan {
    Board(BoardPlan),
}

pub struct CheckDef {
    pub id: &'static str,
    pub sim: &'static str,
    pub sim_id: u64,
    pub quick_runs: u64,
    pub thorough_runs: u64,
    pub level: &'static str,
    pub rule: &'static str,
    pub assumptions: &'static [&'static str],
    pub real: &'static [&'static str],
    pub stubbed: &'static [&'static str],
    /// worker exits after a violating run (simulators that may leave threads behind)
    pub exit_on_violation: bool,
}

const BOARD_REAL: &[&str] = &["inkayaku_board::Bitboard (move generation, make/unmake, check detection, zobrist, FEN read/write, UCI/SAN conversion, perft)", "inkayaku_core::fen::Fen", "inkayaku_engine_core static evaluation (through verif accessor, C11 only)"];
const BOARD_STUB: &[&str] = &["none: BoardSim links the crates directly; the oracle is the independent reference model sim/src/refchess"];
const BOARD_ASSUME: &[&str] = &[
    "reference chess model sim/src/refchess is correct (perft self-test against published values at every start)",
    "no schedule, clock or I/O exists behind this property: the simulated dimension is the operation history on one long-lived mutable board (incl. aborted operations and restart from serialized state)",
];
const BOARD_RULE: &str = "one run = one seeded plan (start FEN from a curated pool with randomised clocks + 30..400 operations: play / probe-all-pseudo-legal / take-back / move strings of every class / move lists with an injected bad move / SAN / checkpoint-restore via FEN / corrupted FEN / jump / transpose / variant) executed on ONE live Bitboard and cross-checked against the reference model after every operation; a run is non-trivial if it executed >= 10 operations or >= 3 moves; distinct = distinct event-log hash (moves played, take-backs, restores, final position)";

pub const CHECKS: &[CheckDef] = &[
    CheckDef { id: "C01", sim: "board", sim_id: 1, quick_runs: 24_000, thorough_runs: 400_000, level: "exploration", rule: BOARD_RULE, assumptions: BOARD_ASSUME, real: BOARD_REAL, stubbed: BOARD_STUB, exit_on_violation: false },
    CheckDef { id: "C02", sim: "board", sim_id: 2, quick_runs: 24_000, thorough_runs: 400_000, level: "exploration", rule: BOARD_RULE, assumptions: BOARD_ASSUME, real: BOARD_REAL, stubbed: BOARD_STUB, exit_on_violation: false },
    CheckDef { id: "C03", sim: "board", sim_id: 3, quick_runs: 24_000, thorough_runs: 400_000, level: "exploration", rule: BOARD_RULE, assumptions: BOARD_ASSUME, real: BOARD_REAL, stubbed: BOARD_STUB, exit_on_violation: false },
    CheckDef { id: "C05", sim: "board", sim_id: 5, quick_runs: 24_000, thorough_runs: 400_000, level: "exploration", rule: BOARD_RULE, assumptions: BOARD_ASSUME, real: BOARD_REAL, stubbed: BOARD_STUB, exit_on_violation: false },
    CheckDef { id: "C06", sim: "board", sim_id: 6, quick_runs: 24_000, thorough_runs: 400_000, level: "exploration", rule: BOARD_RULE, assumptions: BOARD_ASSUME, real: BOARD_REAL, stubbed: BOARD_STUB, exit_on_violation: false },
    CheckDef { id: "C12", sim: "board", sim_id: 12, quick_runs: 24_000, thorough_runs: 400_000, level: "exploration", rule: BOARD_RULE, assumptions: BOARD_ASSUME, real: BOARD_REAL, stubbed: BOARD_STUB, exit_on_violation: false },
    CheckDef { id: "C13", sim: "board", sim_id: 13, quick_runs: 24_000, thorough_runs: 400_000, level: "exploration", rule: BOARD_RULE, assumptions: BOARD_ASSUME, real: BOARD_REAL, stubbed: BOARD_STUB, exit_on_violation: false },
    CheckDef { id: "C14", sim: "board", sim_id: 14, quick_runs: 16_000, thorough_runs: 300_000, level: "exploration", rule: BOARD_RULE, assumptions: BOARD_ASSUME, real: BOARD_REAL, stubbed: BOARD_STUB, exit_on_violation: false },
];

pub fn find(id: &str) -> Option<&'static CheckDef> {
    CHECKS.iter().find(|c| c.id == id)
}

pub struct Ctx {
    pub pool: Vec<Pos>,
}

impl Ctx {
    pub fn new() -> Self {
        Ctx { pool: crate::pool::pool() }
    }
}

pub fn gen_plan(def: &CheckDef, ctx: &Ctx, seed: u64, thorough: bool) -> Plan {
    match def.sim {
        "board" => Plan::Board(boardsim::gen_plan(def.id, seed, thorough, &ctx.pool)),
        other => panic!("unknown simulator {}", other),
    }
}

pub fn exec_plan(plan: &Plan) -> RunResult {
    match plan {
        Plan::Board(p) => boardsim::exec_plan(p),
    }
}

pub fn shrink_candidates(plan: &Plan) -> Vec<Plan> {
    match plan {
        Plan::Board(p) => boardsim::shrink_candidates(p).into_iter().map(Plan::Board).collect(),
    }
}

pub fn plan_size(plan: &Plan) -> usize {
    match plan {
        Plan::Board(p) => p.ops.len(),
    }
}

//! Table of checks (one per claimed property) and dispatch to the simulators.

use serde::{Deserialize, Serialize};

use crate::boardsim::{self, BoardPlan};
use crate::enginesim::{self, EnginePlan};
use crate::linesim::{self, LinePlan};
use crate::common::RunResult;
use crate::refchess::Pos;

#[derive(Clone, Debug, Serialize, Deserialize, PartialEq)]
#[serde(tag = "sim")]
pub enum Plan {
    Board(BoardPlan),
    Engine(EnginePlan),
    Line(LinePlan),
}

pub struct CheckDef {
    pub id: &'static str,
    pub sim: &'static str,
    pub sim_id: u64,
    pub quick_runs: u64,
    pub thorough_runs: u64,
    pub level: &'static str,
    pub rule: &'static str,
    pub assumptions: &'static [&'static str],
    pub real: &'static [&'static str],
    pub stubbed: &'static [&'static str],
    /// worker exits after a violating run (simulators that may leave threads behind)
    pub exit_on_violation: bool,
}

const BOARD_REAL: &[&str] = &["inkayaku_board::Bitboard (move generation, make/unmake, check detection, zobrist, FEN read/write, UCI/SAN conversion, perft)", "inkayaku_core::fen::Fen", "inkayaku_engine_core static evaluation (through verif accessor, C11 only)"];
const BOARD_STUB: &[&str] = &["none: BoardSim links the crates directly; the oracle is the independent reference model sim/src/refchess"];
const BOARD_ASSUME: &[&str] = &[
    "reference chess model sim/src/refchess is correct (perft self-test against published values at every start)",
    "no schedule, clock or I/O exists behind this property: the simulated dimension is the operation history on one long-lived mutable board (incl. aborted operations and restart from serialized state)",
];
const BOARD_RULE: &str = "one run = one seeded plan (start FEN from a curated pool with randomised clocks + 30..400 operations: play / probe-all-pseudo-legal / take-back / move strings of every class / move lists with an injected bad move / SAN / checkpoint-restore via FEN / corrupted FEN / jump / transpose / variant) executed on ONE live Bitboard and cross-checked against the reference model after every operation; a run is non-trivial if it executed >= 10 operations or >= 3 moves; distinct = distinct event-log hash (moves played, take-backs, restores, final position)";

const ENGINE_REAL: &[&str] = &["inkayaku_uci::console::ConsoleUciRx::start loop + CommandParser", "inkayaku_engine_core::Engine::accept + std::sync::mpsc channel + search thread (Search::idle/go/best_move/search_negamax/search_quiescence/check_messages)", "inkayaku_uci::console::ConsoleUciTx formatting", "inkayaku_board (all of it, through the search)"];
const ENGINE_STUB: &[&str] = &["stdin/stdout (the read / consumer closures ConsoleUciRx::new and ConsoleUciTx::new already take)", "OS clock (verif::now hook -> simulated clock, a pure function of the plan and the search's own node counter)", "OS scheduler (three real threads parked and released one at a time by the lock-step scheduler)", "the GUI (simulated protocol-conformant actor)", "engine_app/src/main.rs (30 lines of wiring mirrored by the harness; setoption is parsed but not dispatched because Engine::accept is todo!() for it)"];
const ENGINE_ASSUME: &[&str] = &[
    "reference chess model and reference UCI grammars are correct (self-tested)",
    "the GUI is protocol-conformant: after go it sends only stop/isready/debug/ponderhit/ucinewgame/noise/quit until bestmove arrives",
    "poll-interval knob >= 512 so that iteration 1 always completes before the first poll, as with the shipped constant 100000",
    "all cross-thread effects go through the mpsc channel and the UciTx sink, both only touched by the released thread",
];
const ENGINE_RULE: &str = "one run = one seeded session plan on ONE engine instance: 1..8 cycles of [ucinewgame] position(startpos|fen, moves | follow engine's own bestmove+ponder | broken line) noise go(<any parameter subset/order>) in-search events (stop/quit/isready/debug/corrupted lines at chosen poll node counts, clock jumps, stop queued before go is dequeued) await bestmove; knobs (poll interval, TT capacity, ns per node) re-drawn per run; non-trivial = at least one search ran; distinct = distinct event-log hash (every line fed, parse result, output line with writing thread, park with node/ply/iteration, idle FEN)";

pub const CHECKS: &[CheckDef] = &[
    CheckDef { id: "C07", sim: "engine", sim_id: 7, quick_runs: 6_000, thorough_runs: 120_000, level: "exploration", rule: ENGINE_RULE, assumptions: ENGINE_ASSUME, real: ENGINE_REAL, stubbed: ENGINE_STUB, exit_on_violation: true },
    CheckDef { id: "C16", sim: "engine", sim_id: 16, quick_runs: 6_000, thorough_runs: 120_000, level: "exploration", rule: ENGINE_RULE, assumptions: ENGINE_ASSUME, real: ENGINE_REAL, stubbed: ENGINE_STUB, exit_on_violation: true },
    CheckDef { id: "C15", sim: "line", sim_id: 15, quick_runs: 4_000, thorough_runs: 120_000, level: "exploration", rule: "7 of 8 runs (LineSim): 300..600 command lines per run - grammar-generated with random spacing / parameter order / subsets, token- and byte-mutated (flip, drop, duplicate, swap, truncate, oversized numbers, bad move tokens, upper case, non-ASCII, duplicated go parameter), or arbitrary bytes - fed through the real ConsoleUciRx::start reader loop, each parse result compared with a reference parser (Exactly / MustErr / Unspecified), plus a 2048-triple slice of the 64x64x6 move-text space checked for display-parse round trip; 1 of 8 runs (EngineSim): a whole engine session whose lines travel through the same seam, so a panic kills the reader thread as in production and a misread shows by its effect; non-trivial = >= 10 lines; distinct = distinct hash of (line, parse result) sequence", assumptions: &["reference UCI parser sim/src/uciref.rs is correct (written from the UCI text and the behaviours pinned by the existing parser tests)", "separators are blanks only; tabs and grey-area syntax (signs, leading zeros, upper-case promotion letters) are classified Unspecified and only required not to panic and not to turn into a different command"], real: &["inkayaku_uci::console::ConsoleUciRx::start / read_next_command", "inkayaku_uci::parser::CommandParser", "inkayaku_uci::UciMove FromStr/Display", "inkayaku_core Square::from_chars, Fen::from_str"], stubbed: &["stdin (read closure)", "the engine behind on_command (LineSim runs); real engine in the EngineSim share"], exit_on_violation: true },
    CheckDef { id: "C08", sim: "engine_exact", sim_id: 8, quick_runs: 2_400, thorough_runs: 60_000, level: "exploration", rule: "one run = one session of 2..9 cycles `position ...; go depth d` (d = 1..3, or 2N-1 on a position with a reference-proven mate in N) on ONE engine instance with randomised knobs (TT capacity down to 1, poll interval, node cost); after every cycle the reported score must equal the exact minimax value computed by the reference alpha-beta search (no TT/killers/PV reuse) with the engine's own static evaluation at the leaves, and the announced move must attain it; distinct = distinct event-log hash", assumptions: ENGINE_ASSUME, real: ENGINE_REAL, stubbed: ENGINE_STUB, exit_on_violation: true },
    CheckDef { id: "C09", sim: "engine_interrupt", sim_id: 9, quick_runs: 96, thorough_runs: 3_000, level: "fault_enumeration", rule: "one run = one plan (position, go depth d, poll interval 512): a dry run yields the poll node counts p1<..<pn (every node count at which the abort flag can be observed); the plan is then executed once per p_i (all of them up to 400, evenly thinned above) and per interrupt kind (stop, quit, simulated-clock movetime expiry), each followed by go depth 1 WITHOUT position, two more interrupted searches and go depth 1 again; evaluations = interrupted sessions executed; distinct = distinct (plan, interruption point, kind) event-log hashes", assumptions: ENGINE_ASSUME, real: ENGINE_REAL, stubbed: ENGINE_STUB, exit_on_violation: true },
    CheckDef { id: "C01", sim: "board", sim_id: 1, quick_runs: 24_000, thorough_runs: 400_000, level: "exploration", rule: BOARD_RULE, assumptions: BOARD_ASSUME, real: BOARD_REAL, stubbed: BOARD_STUB, exit_on_violation: false },
    CheckDef { id: "C02", sim: "board", sim_id: 2, quick_runs: 24_000, thorough_runs: 400_000, level: "exploration", rule: BOARD_RULE, assumptions: BOARD_ASSUME, real: BOARD_REAL, stubbed: BOARD_STUB, exit_on_violation: false },
    CheckDef { id: "C03", sim: "board", sim_id: 3, quick_runs: 24_000, thorough_runs: 400_000, level: "exploration", rule: BOARD_RULE, assumptions: BOARD_ASSUME, real: BOARD_REAL, stubbed: BOARD_STUB, exit_on_violation: false },
    CheckDef { id: "C05", sim: "board", sim_id: 5, quick_runs: 24_000, thorough_runs: 400_000, level: "exploration", rule: BOARD_RULE, assumptions: BOARD_ASSUME, real: BOARD_REAL, stubbed: BOARD_STUB, exit_on_violation: false },
    CheckDef { id: "C06", sim: "board", sim_id: 6, quick_runs: 24_000, thorough_runs: 400_000, level: "exploration", rule: BOARD_RULE, assumptions: BOARD_ASSUME, real: BOARD_REAL, stubbed: BOARD_STUB, exit_on_violation: false },
    CheckDef { id: "C12", sim: "board", sim_id: 12, quick_runs: 24_000, thorough_runs: 400_000, level: "exploration", rule: BOARD_RULE, assumptions: BOARD_ASSUME, real: BOARD_REAL, stubbed: BOARD_STUB, exit_on_violation: false },
    CheckDef { id: "C13", sim: "board", sim_id: 13, quick_runs: 24_000, thorough_runs: 400_000, level: "exploration", rule: BOARD_RULE, assumptions: BOARD_ASSUME, real: BOARD_REAL, stubbed: BOARD_STUB, exit_on_violation: false },
    CheckDef { id: "C14", sim: "board", sim_id: 14, quick_runs: 16_000, thorough_runs: 300_000, level: "exploration", rule: BOARD_RULE, assumptions: BOARD_ASSUME, real: BOARD_REAL, stubbed: BOARD_STUB, exit_on_violation: false },
];

pub fn find(id: &str) -> Option<&'static CheckDef> {
    CHECKS.iter().find(|c| c.id == id)
}

pub struct Ctx {
    pub pool: Vec<Pos>,
    pub mates: Vec<(Pos, u32)>,
}

impl Ctx {
    pub fn new() -> Self {
        let pool = crate::pool::pool();
        let mut mates = Vec::new();
        for (f, _) in crate::pool::MATES {
            if let Ok(p) = Pos::from_fen(f) {
                if !p.is_sane() {
                    continue;
                }
                for q in [p.clone(), p.flip()] {
                    for n in 1..=3u32 {
                        if !crate::refchess::search::mate_in(&q, n).is_empty() {
                            mates.push((q.clone(), n));
                            break;
                        }
                    }
                }
            }
        }
        Ctx { pool, mates }
    }
}

pub fn gen_plan(def: &CheckDef, ctx: &Ctx, seed: u64, thorough: bool) -> Plan {
    match def.sim {
        "board" => Plan::Board(boardsim::gen_plan(def.id, seed, thorough, &ctx.pool)),
        "engine" => Plan::Engine(enginesim::gen_plan(def.id, seed, thorough, &ctx.pool)),
        "line" => {
            if seed % 8 == 0 {
                Plan::Engine(enginesim::gen_plan("C15", seed, thorough, &ctx.pool))
            } else {
                Plan::Line(linesim::gen_plan(seed, thorough, &ctx.pool))
            }
        }
        "engine_exact" => Plan::Engine(enginesim::gen_plan_exact(seed, thorough, &ctx.pool, &ctx.mates)),
        "engine_interrupt" => Plan::Engine(enginesim::gen_plan_interrupt(seed, thorough, &ctx.pool)),
        other => panic!("unknown simulator {}", other),
    }
}

pub fn exec_plan(plan: &Plan) -> RunResult {
    match plan {
        Plan::Board(p) => boardsim::exec_plan(p),
        Plan::Engine(p) => enginesim::exec_plan(p),
        Plan::Line(p) => linesim::exec_plan(p),
    }
}

pub fn shrink_candidates(plan: &Plan) -> Vec<Plan> {
    match plan {
        Plan::Board(p) => boardsim::shrink_candidates(p).into_iter().map(Plan::Board).collect(),
        Plan::Engine(p) => enginesim::shrink_candidates(p).into_iter().map(Plan::Engine).collect(),
        Plan::Line(p) => linesim::shrink_candidates(p).into_iter().map(Plan::Line).collect(),
    }
}

pub fn plan_size(plan: &Plan) -> usize {
    match plan {
        Plan::Board(p) => p.ops.len(),
        Plan::Line(p) => p.lines.len() + p.move_sweep.1 as usize,
        Plan::Engine(p) => p.cycles.iter().map(|c| 4 + c.events.len() + c.pre_lines.len() + c.post_lines.len() + c.jumps.len() + match &c.pos { enginesim::PosSpec::Set { moves, .. } => 1 + moves.len(), _ => 1 } + c.go.depth.unwrap_or(0) as usize).sum(),
    }
}

//! Table of checks (one per claimed property) and dispatch to the simulators.

use serde::{Deserialize, Serialize};

use crate::appsim::{self, AppPlan};
use crate::boardsim::{self, BoardPlan};
use crate::enginesim::{self, EnginePlan};
use crate::linesim::{self, LinePlan};
use crate::streamsim::{self, StreamPlan};
use crate::tablesim::{self, RepPlan, TablePlan};
use crate::common::RunResult;
use crate::refchess::Pos;

#[derive(Clone, Debug, Serialize, Deserialize, PartialEq)]
#[serde(tag = "sim")]
pub enum Plan {
    Board(BoardPlan),
    Engine(EnginePlan),
    Line(LinePlan),
    Table(TablePlan),
    Rep(RepPlan),
    Stream(StreamPlan),
    /// the shipped binary's output path under Miri's seeded scheduler (C16)
    App(AppPlan),
    /// executed by the separate sim_api binary (surf/http-client stack); opaque here
    Api(serde_json::Value),
}

pub struct CheckDef {
    pub id: &'static str,
    pub sim: &'static str,
    pub sim_id: u64,
    pub quick_runs: u64,
    pub thorough_runs: u64,
    pub level: &'static str,
    pub rule: &'static str,
    pub assumptions: &'static [&'static str],
    pub real: &'static [&'static str],
    pub stubbed: &'static [&'static str],
    /// worker exits after a violating run (simulators that may leave threads behind)
    pub exit_on_violation: bool,
}

const BOARD_REAL: &[&str] = &["inkayaku_board::Bitboard (move generation, make/unmake, check detection, zobrist, FEN read/write, UCI/SAN conversion, perft)", "inkayaku_core::fen::Fen", "inkayaku_engine_core static evaluation (through verif accessor, C11 only)"];
const BOARD_STUB: &[&str] = &["none: BoardSim links the crates directly; the oracle is the independent reference model sim/src/refchess"];
const BOARD_ASSUME: &[&str] = &[
    "reference chess model sim/src/refchess is correct (perft self-test against published values at every start)",
    "no schedule, clock or I/O exists behind this property: the simulated dimension is the operation history on one long-lived mutable board (incl. aborted operations and restart from serialized state)",
];
const BOARD_RULE: &str = "one run = one seeded plan (start FEN from a curated pool with randomised clocks + 30..400 operations: play / probe-all-pseudo-legal / take-back / move strings of every class / move lists with an injected bad move / SAN / checkpoint-restore via FEN / corrupted FEN / jump / transpose / variant) executed on ONE live Bitboard and cross-checked against the reference model after every operation; a run is non-trivial if it executed >= 10 operations or >= 3 moves; distinct = distinct event-log hash (moves played, take-backs, restores, final position)";

const ENGINE_REAL: &[&str] = &["inkayaku_uci::console::ConsoleUciRx::start loop + CommandParser", "inkayaku_engine_core::Engine::accept + std::sync::mpsc channel + search thread (Search::idle/go/best_move/search_negamax/search_quiescence/check_messages)", "inkayaku_uci::console::ConsoleUciTx formatting", "inkayaku_board (all of it, through the search)"];
const ENGINE_STUB: &[&str] = &["stdin/stdout (the read / consumer closures ConsoleUciRx::new and ConsoleUciTx::new already take)", "OS clock (verif::now hook -> simulated clock, a pure function of the plan and the search's own node counter)", "OS scheduler (three real threads parked and released one at a time by the lock-step scheduler)", "the GUI (simulated protocol-conformant actor)", "engine_app/src/main.rs (30 lines of wiring mirrored by the harness; setoption is parsed but not dispatched because Engine::accept is todo!() for it)"];
const ENGINE_ASSUME: &[&str] = &[
    "reference chess model and reference UCI grammars are correct (self-tested)",
    "the GUI is protocol-conformant: after go it sends only stop/isready/debug/ponderhit/ucinewgame/noise/quit until bestmove arrives",
    "poll-interval knob >= 512 so that iteration 1 always completes before the first poll, as with the shipped constant 100000",
    "all cross-thread effects go through the mpsc channel and the UciTx sink, both only touched by the released thread",
];
const ENGINE_RULE: &str = "one run = one seeded session plan on ONE engine instance: 1..8 cycles of [ucinewgame] position(startpos|fen, moves | follow engine's own bestmove+ponder | broken line) noise go(<any parameter subset/order>) in-search events (stop/quit/isready/debug/corrupted lines at chosen poll node counts, clock jumps, stop queued before go is dequeued) await bestmove; knobs (poll interval, TT capacity, ns per node) re-drawn per run; non-trivial = at least one search ran; distinct = distinct event-log hash (every line fed, parse result, output line with writing thread, park with node/ply/iteration, idle FEN)";

// C16 has a second simulator for the output path of the shipped binary (AppLineSim, sim/src/appsim.rs)
const C16_REAL: &[&str] = &["inkayaku_uci::console::ConsoleUciRx::start loop + CommandParser", "inkayaku_engine_core::Engine::accept + std::sync::mpsc channel + search thread (Search::idle/go/best_move/search_negamax/search_quiescence/check_messages)", "inkayaku_uci::console::ConsoleUciTx formatting", "inkayaku_board (all of it, through the search)", "AppLineSim share (1 run in 160): engine_app/src/main.rs compiled unchanged into sim_app (include!), its print_ln/print_err behind ConsoleUciTx exactly as main() wires them, real std::io::Stdout, 2..3 real writer threads"];
const C16_STUB: &[&str] = &["EngineSim share: stdin/stdout closures, OS clock, OS scheduler (lock-step scheduler), GUI, engine_app/src/main.rs wiring mirrored by the harness (as in C07)", "AppLineSim share: OS scheduler (Miri's interpreter owns every thread switch: -Zmiri-seed and -Zmiri-preemption-rate from the plan), the engine (writers emit generated id/uciok/readyok/info/bestmove messages through the real transmitter; no search runs under Miri)"];
const C16_RULE: &str = "EngineSim share: as C07 (one seeded session plan on ONE engine instance; every output line parsed by the reference grammar, monotone depth/nodes/time, PV legality, bestmove/ponder = head of last PV). AppLineSim share (seed % 160 == 7): one run = one plan (2..3 writer threads with 3..12 messages each, a Miri seed, a preemption rate of 1/3/10/30 %) executed as `cargo +nightly miri run` on sim_app; stdout must be whole lines, equal as a multiset to what the same workload writes from one thread, and every line must parse under the reference grammar; distinct = distinct hash of the output bytes";

pub const CHECKS: &[CheckDef] = &[
    CheckDef { id: "C07", sim: "engine", sim_id: 7, quick_runs: 10000, thorough_runs: 200000, level: "exploration", rule: ENGINE_RULE, assumptions: ENGINE_ASSUME, real: ENGINE_REAL, stubbed: ENGINE_STUB, exit_on_violation: true },
    CheckDef { id: "C16", sim: "engine", sim_id: 16, quick_runs: 10000, thorough_runs: 200000, level: "exploration", rule: C16_RULE, assumptions: ENGINE_ASSUME, real: C16_REAL, stubbed: C16_STUB, exit_on_violation: true },
    CheckDef { id: "C11", sim: "symmetry", sim_id: 11, quick_runs: 12000, thorough_runs: 200000, level: "exploration", rule: "odd runs (BoardSim, focus C11): seeded operation histories in which the static evaluation (through the hook) of every visited position is compared with minus the evaluation of its colour-flipped twin, terminal positions included (mated side negative, stalemate = draw score); even runs (EngineSim twin mode): engine A plays a session of 2..9 `position; go depth 1..3 | mate cycles` and engine B the colour-flipped session (FENs flipped, every move mirrored), each with the C08 exactness oracle on, and the reported score lines (cp / mate N) must be identical cycle by cycle; distinct = distinct event-log hash", assumptions: ENGINE_ASSUME, real: ENGINE_REAL, stubbed: ENGINE_STUB, exit_on_violation: true },
    CheckDef { id: "C10", sim: "draw", sim_id: 10, quick_runs: 16000, thorough_runs: 300000, level: "exploration", rule: "3 of 4 runs (EngineSim): a session of 2..8 cycles `position <imbalanced FEN with half-move clock 0..150> moves <shuffle-biased legal history, 0..24 plies>; go depth 1 searchmoves m | go depth 1..3`; the reported score must lie between the reference depth-d values computed with repetition leaves (>= 3 occurrences within the irreversible-move window, history + line) valued -contempt and +contempt and with a fifty-move leaf value only from clock 100 on (equality when no draw leaf is in reach); 1 of 4 runs (RepSim): seeded hash histories with irreversible-move marks fed to ZobristHistory::set/count_repetitions through the hook and compared with reference occurrence counting, start indices 0..4990; non-trivial = at least one comparison; distinct = distinct event-log hash", assumptions: ENGINE_ASSUME, real: ENGINE_REAL, stubbed: ENGINE_STUB, exit_on_violation: true },
    CheckDef { id: "C17", sim: "stream", sim_id: 17, quick_runs: 100000, thorough_runs: 3000000, level: "exploration", rule: "one run = 1..8 games produced by the reference model (legal random play biased towards castling by both sides, promotions, checks, mates; a quarter of them from-position games with a [FEN] tag), written in the Lichess export layout (tag lines, blank line, one-line movetext with move numbers, N... after comments, {clock/eval/free-text} comments, every result token, 0/1/2 trailing newlines) and read through PgnRawParser::with_chunk_size(chunk in {1,2,3,5,8,64,8192,len-1,len,len+1,random}) over a Read that fragments its answers according to the plan (1-byte reads, short reads, shrinking-then-growing reads, random sizes); verdict = (1) yielded games == generated games (tags as a map, SAN and comments verbatim), (2) same result as one read of the whole input, (3) replaying the yielded SAN through pgn_to_bb reaches the reference final position; source truncation and ErrorKind::Interrupted are observational only; non-trivial = at least one move; distinct = distinct hash of (text, chunk size, read pattern)", assumptions: &["reference model produces legal games and canonical SAN (self-tested); harness PGN writer follows the Lichess export layout", "tag values and comments are ASCII without quotes/braces (non-ASCII text is outside what the byte-wise reader is specified for)", "the property quantifies over fragmentations of a COMPLETE input; truncated sources and Interrupted reads are reported in the evidence, never as a verdict"], real: &["inkayaku_pgn::reader::PgnRawParser (ensure_buffer, tokeniser, tag/move/comment readers, Iterator)", "inkayaku_board::Bitboard::pgn_to_bb + make (replay, as pgn_test/src/main.rs does)"], stubbed: &["the file / zstd stream behind Read (FragReader serves the bytes according to the plan)", "pgn_test binary (its replay loop is reproduced by the harness)"], exit_on_violation: false },
    CheckDef { id: "C19", sim: "api", sim_id: 19, quick_runs: 30000, thorough_runs: 600000, level: "exploration", rule: "one run = one simulated HTTP response body on the game stream (reference game of 0..300 moves incl. castling and promotions: gameFull once, gameState per move, chatLine / opponentGone interleaved) or on the event stream (gameStart, gameFinish, challenge, challengeCanceled, challengeDeclined); every optional field independently present/absent, every enumerated key cycled, string fields with JSON escapes / \\uXXXX / non-ASCII, random key order; the bytes are released in planned fragments (1, 2, 3.. bytes, inside UTF-8 sequences and escapes, between CR and LF) through a BufReader of capacity 1..8192 with keep-alive blank lines and Poll::Pending gaps; verdict = item count and order, every transmitted value found in the decoded value, move list element by element, each move accepted by UciMove::from_str, replay with make_uci gives the reference side to move, result equal to single-fragment delivery; distinct = distinct hash of (documents, fragmentation, buffer capacity)", assumptions: &["document shapes written from the Lichess Bot API documentation as remembered (no network here): only fields and keys I am certain of are verdict-bearing; `rules` is sent in the comma-separated form the decoder is written for", "futures::executor::block_on single-threaded; the reader's wake-ups are immediate so the execution is a function of the plan"], real: &["inkayaku_lichess_api::api::SurfWebClient::stream (line reassembly, blank-line skipping)", "BotApi::stream_bot_game_state / stream_incoming_events (serde models BotGameState / BotEvent)", "surf client + http-types Body/Response (real library code above the transport seam)", "inkayaku_uci::UciMove::from_str, inkayaku_board::Bitboard::make_uci (consumer logic of lichess_bot::GameThread re-applied by the harness)"], stubbed: &["TCP/TLS/HTTP transport (surf::Config::set_http_client -> SimHttp)", "lichess_bot::GameThread and main (private module of a binary crate; not executed)"], exit_on_violation: false },
    CheckDef { id: "C18", sim: "table", sim_id: 18, quick_runs: 400000, thorough_runs: 10000000, level: "exploration", rule: "one run = one seeded history of 10..400 put/get/clear/len operations on a HashTable<ZobristHash,u64> of capacity 1..16 over a key universe of 2..40 keys (dense or spread over 64 bits; re-insertion of present and of evicted keys is the norm; every written value unique), compared after EVERY operation with a reference insertion-ordered FIFO map: every live key reads its value, every evicted/cleared key reads nothing, len <= capacity, load_factor = len/capacity; non-trivial = >= 5 operations; distinct = distinct hash of the key sequence", assumptions: &["reference FIFO map (a vector) is correct", "no schedule exists: the table is owned by the search thread alone; the simulated dimension is the operation history; the cache-size knob inside real searches is exercised by the EngineSim checks (TT capacity 1..1024, hashfull <= 1000 enforced by the output grammar, C08 exactness independent of capacity)"], real: &["inkayaku_engine_core::engine::table::HashTable<ZobristHash, u64> through the cfg-gated TableHandle"], stubbed: &["nothing"], exit_on_violation: false },
    CheckDef { id: "C15", sim: "line", sim_id: 15, quick_runs: 30000, thorough_runs: 600000, level: "exploration", rule: "7 of 8 runs (LineSim): 300..600 command lines per run - grammar-generated with random spacing / parameter order / subsets, token- and byte-mutated (flip, drop, duplicate, swap, truncate, oversized numbers, bad move tokens, upper case, non-ASCII, duplicated go parameter), or arbitrary bytes - fed through the real ConsoleUciRx::start reader loop, each parse result compared with a reference parser (Exactly / MustErr / Unspecified), plus a 2048-triple slice of the 64x64x6 move-text space checked for display-parse round trip; 1 of 8 runs (EngineSim): a whole engine session whose lines travel through the same seam, so a panic kills the reader thread as in production and a misread shows by its effect; non-trivial = >= 10 lines; distinct = distinct hash of (line, parse result) sequence", assumptions: &["reference UCI parser sim/src/uciref.rs is correct (written from the UCI text and the behaviours pinned by the existing parser tests)", "separators are blanks only; tabs and grey-area syntax (signs, leading zeros, upper-case promotion letters) are classified Unspecified and only required not to panic and not to turn into a different command"], real: &["inkayaku_uci::console::ConsoleUciRx::start / read_next_command", "inkayaku_uci::parser::CommandParser", "inkayaku_uci::UciMove FromStr/Display", "inkayaku_core Square::from_chars, Fen::from_str"], stubbed: &["stdin (read closure)", "the engine behind on_command (LineSim runs); real engine in the EngineSim share"], exit_on_violation: true },
    CheckDef { id: "C08", sim: "engine_exact", sim_id: 8, quick_runs: 10000, thorough_runs: 200000, level: "exploration", rule: "one run = one session of 2..9 cycles `position ...; go depth d` (d = 1..3, or 2N-1 on a position with a reference-proven mate in N) on ONE engine instance with randomised knobs (TT capacity down to 1, poll interval, node cost); after every cycle the reported score must equal the exact minimax value computed by the reference alpha-beta search (no TT/killers/PV reuse) with the engine's own static evaluation at the leaves, and the announced move must attain it; distinct = distinct event-log hash", assumptions: ENGINE_ASSUME, real: ENGINE_REAL, stubbed: ENGINE_STUB, exit_on_violation: true },
    CheckDef { id: "C09", sim: "engine_interrupt", sim_id: 9, quick_runs: 768, thorough_runs: 19200, level: "fault_enumeration", rule: "1 of 8 runs = one enumeration plan (position, go depth d, poll interval 512): a dry run yields the poll node counts p1<..<pn (every node count at which the abort flag can be observed); the plan is then executed once per p_i (all of them up to 400, evenly thinned above) and per interrupt kind (stop, quit, simulated-clock movetime expiry), each followed by go depth 1 WITHOUT position, two more interrupted searches and go depth 1 again; evaluations = interrupted sessions executed; distinct = distinct (plan, interruption point, kind) event-log hashes; the other 7 of 8 runs are generic fault-injecting engine sessions (stop/quit/clock expiry at seeded polls, stop queued before go, position command arriving during search, noise) judged by the same read-back of the search thread's board at every idle point", assumptions: ENGINE_ASSUME, real: ENGINE_REAL, stubbed: ENGINE_STUB, exit_on_violation: true },
    CheckDef { id: "C01", sim: "board", sim_id: 1, quick_runs: 60000, thorough_runs: 1500000, level: "exploration", rule: BOARD_RULE, assumptions: BOARD_ASSUME, real: BOARD_REAL, stubbed: BOARD_STUB, exit_on_violation: false },
    CheckDef { id: "C02", sim: "board", sim_id: 2, quick_runs: 60000, thorough_runs: 1500000, level: "exploration", rule: BOARD_RULE, assumptions: BOARD_ASSUME, real: BOARD_REAL, stubbed: BOARD_STUB, exit_on_violation: false },
    CheckDef { id: "C03", sim: "board", sim_id: 3, quick_runs: 60000, thorough_runs: 1500000, level: "exploration", rule: BOARD_RULE, assumptions: BOARD_ASSUME, real: BOARD_REAL, stubbed: BOARD_STUB, exit_on_violation: false },
    CheckDef { id: "C05", sim: "board", sim_id: 5, quick_runs: 40000, thorough_runs: 800000, level: "exploration", rule: BOARD_RULE, assumptions: BOARD_ASSUME, real: BOARD_REAL, stubbed: BOARD_STUB, exit_on_violation: false },
    CheckDef { id: "C06", sim: "board", sim_id: 6, quick_runs: 60000, thorough_runs: 1500000, level: "exploration", rule: BOARD_RULE, assumptions: BOARD_ASSUME, real: BOARD_REAL, stubbed: BOARD_STUB, exit_on_violation: false },
    CheckDef { id: "C12", sim: "board", sim_id: 12, quick_runs: 60000, thorough_runs: 1500000, level: "exploration", rule: BOARD_RULE, assumptions: BOARD_ASSUME, real: BOARD_REAL, stubbed: BOARD_STUB, exit_on_violation: false },
    CheckDef { id: "C13", sim: "board", sim_id: 13, quick_runs: 60000, thorough_runs: 1500000, level: "exploration", rule: BOARD_RULE, assumptions: BOARD_ASSUME, real: BOARD_REAL, stubbed: BOARD_STUB, exit_on_violation: true },
    CheckDef { id: "C14", sim: "board", sim_id: 14, quick_runs: 40000, thorough_runs: 800000, level: "exploration", rule: BOARD_RULE, assumptions: BOARD_ASSUME, real: BOARD_REAL, stubbed: BOARD_STUB, exit_on_violation: false },
];

pub fn find(id: &str) -> Option<&'static CheckDef> {
    CHECKS.iter().find(|c| c.id == id)
}

pub struct Ctx {
    pub pool: Vec<Pos>,
    pub mates: Vec<(Pos, u32)>,
    pub imbalanced: Vec<Pos>,
}

impl Ctx {
    /// `with_mates`: verify the forced-mate positions (only the exactness / symmetry plans need them;
    /// it costs a few hundred ms, which matters for workers that are respawned after every violating run)
    pub fn new(with_mates: bool) -> Self {
        let pool = crate::pool::pool();
        let mut mates = Vec::new();
        let mate_list: &[(&str, u32)] = if with_mates { crate::pool::MATES } else { &[] };
        for (f, _) in mate_list {
            if let Ok(p) = Pos::from_fen(f) {
                if !p.is_sane() {
                    continue;
                }
                for q in [p.clone(), p.flip()] {
                    for n in 1..=3u32 {
                        if !crate::refchess::search::mate_in(&q, n).is_empty() {
                            mates.push((q.clone(), n));
                            break;
                        }
                    }
                }
            }
        }
        let imbalanced: Vec<Pos> = pool
            .iter()
            .filter(|p| p.has_legal_move() && inkayaku_board::Bitboard::from_fen_string(&p.to_fen()).map_or(false, |b| inkayaku_engine_core::verif::evaluate_ongoing(&b).abs() >= 300))
            .cloned()
            .collect();
        Ctx { pool, mates, imbalanced }
    }
}

/// one in APP_SHARE runs of the C16 check is an AppLineSim run (about 1.5 s each: Miri start-up)
pub const APP_SHARE: u64 = 160;

pub fn gen_plan(def: &CheckDef, ctx: &Ctx, seed: u64, thorough: bool) -> Plan {
    match def.sim {
        // C13 also has an engine share: `position ... moves` lists with a bad move at index j must
        // leave the engine on its previous position (read back at the next idle point)
        "board" if def.id == "C13" && seed % 16 == 0 => Plan::Engine(enginesim::gen_plan("C13", seed, thorough, &ctx.pool)),
        "board" => Plan::Board(boardsim::gen_plan(def.id, seed, thorough, &ctx.pool)),
        // C16 also covers the output path of the shipped binary itself (engine_app/src/main.rs):
        // several threads inside print_ln at once, interleaved by Miri's seeded scheduler
        "engine" if def.id == "C16" && seed % APP_SHARE == 7 && std::env::var("VERIF_APPLINE").map_or(true, |v| v != "off") => Plan::App(appsim::gen_plan(seed, thorough)),
        "engine" => Plan::Engine(enginesim::gen_plan(def.id, seed, thorough, &ctx.pool)),
        "line" => {
            if seed % 8 == 0 {
                Plan::Engine(enginesim::gen_plan("C15", seed, thorough, &ctx.pool))
            } else {
                Plan::Line(linesim::gen_plan(seed, thorough, &ctx.pool))
            }
        }
        "symmetry" => {
            if seed % 2 == 1 {
                Plan::Board(boardsim::gen_plan("C11", seed, thorough, &ctx.pool))
            } else {
                Plan::Engine(enginesim::gen_plan_twin(seed, thorough, &ctx.pool, &ctx.mates, &ctx.imbalanced))
            }
        }
        "draw" => {
            if seed % 4 == 0 {
                Plan::Rep(tablesim::gen_rep_plan(seed, thorough))
            } else {
                Plan::Engine(enginesim::gen_plan_draw(seed, thorough, &ctx.imbalanced))
            }
        }
        "api" => panic!("api plans are generated by the sim_api binary"),
        "stream" => Plan::Stream(streamsim::gen_plan(seed, thorough, &ctx.pool)),
        "table" => Plan::Table(tablesim::gen_table_plan(seed, thorough)),
        "engine_exact" => Plan::Engine(enginesim::gen_plan_exact_disturbed(seed, thorough, &ctx.pool, &ctx.mates, &ctx.imbalanced)),
        // 1 of 8 runs is an enumeration plan (heavy: hundreds of sessions), the others are generic
        // fault-injecting sessions judged by the same position read-back oracle
        "engine_interrupt" if seed % 8 != 0 => Plan::Engine(enginesim::gen_plan("C09", seed, thorough, &ctx.pool)),
        "engine_interrupt" => Plan::Engine(enginesim::gen_plan_interrupt(seed, thorough, &ctx.pool, &ctx.imbalanced)),
        other => panic!("unknown simulator {}", other),
    }
}

pub fn exec_plan(plan: &Plan) -> RunResult {
    match plan {
        Plan::Board(p) => boardsim::exec_plan(p),
        Plan::Engine(p) => enginesim::exec_plan(p),
        Plan::Line(p) => linesim::exec_plan(p),
        Plan::Table(p) => tablesim::exec_table_plan(p),
        Plan::Rep(p) => tablesim::exec_rep_plan(p),
        Plan::Stream(p) => streamsim::exec_plan(p),
        Plan::App(p) => appsim::exec_plan(p),
        Plan::Api(_) => {
            let mut r = RunResult::default();
            r.foreign = Some(crate::common::Violation::new("HARNESS", "api_plan_in_wrong_binary", "Api plans are executed by sim_api".into()));
            r
        }
    }
}

pub fn shrink_candidates(plan: &Plan) -> Vec<Plan> {
    match plan {
        Plan::Board(p) => boardsim::shrink_candidates(p).into_iter().map(Plan::Board).collect(),
        Plan::Engine(p) => enginesim::shrink_candidates(p).into_iter().map(Plan::Engine).collect(),
        Plan::Line(p) => linesim::shrink_candidates(p).into_iter().map(Plan::Line).collect(),
        Plan::Table(p) => tablesim::shrink_table(p).into_iter().map(Plan::Table).collect(),
        Plan::Rep(p) => tablesim::shrink_rep(p).into_iter().map(Plan::Rep).collect(),
        Plan::Stream(p) => streamsim::shrink_candidates(p).into_iter().map(Plan::Stream).collect(),
        Plan::App(p) => appsim::shrink_candidates(p).into_iter().map(Plan::App).collect(),
        Plan::Api(v) => shrink_api(v).into_iter().map(Plan::Api).collect(),
    }
}

pub fn plan_size(plan: &Plan) -> usize {
    match plan {
        Plan::Board(p) => p.ops.len(),
        Plan::Line(p) => p.lines.len() + p.move_sweep.1 as usize,
        Plan::Table(p) => p.ops.len(),
        Plan::App(p) => p.threads.iter().map(|t| t.len()).sum(),
        Plan::Rep(p) => p.seq.len() + p.start_index as usize,
        Plan::Api(v) => v.get("docs").and_then(|d| d.as_array()).map_or(0, |a| a.len()) + v.get("frag").and_then(|d| d.as_array()).map_or(0, |a| a.len()),
        Plan::Stream(p) => p.games.iter().map(|g| 1 + g.sans.len() + g.tags.len()).sum::<usize>() + p.frag.len(),
        Plan::Engine(p) => p.cycles.iter().map(|c| 4 + c.events.len() + c.pre_lines.len() + c.post_lines.len() + c.jumps.len() + match &c.pos { enginesim::PosSpec::Set { moves, .. } => 1 + moves.len(), _ => 1 } + c.go.depth.unwrap_or(0) as usize).sum(),
    }
}

fn shrink_api(v: &serde_json::Value) -> Vec<serde_json::Value> {
    use serde_json::json;
    let mut out = Vec::new();
    let n = v.get("docs").and_then(|d| d.as_array()).map_or(0, |a| a.len());
    let mut chunk = n / 2;
    while chunk >= 1 {
        let mut start = 0;
        while start < n {
            let mut p = v.clone();
            if let Some(a) = p.get_mut("docs").and_then(|d| d.as_array_mut()) {
                let end = (start + chunk).min(a.len());
                a.drain(start..end);
            }
            out.push(p);
            start += chunk;
        }
        if chunk == 1 {
            break;
        }
        chunk /= 2;
    }
    for (k, val) in [("frag", json!([0])), ("pending_every", json!(0)), ("keepalives", json!([0])), ("bufcap", json!(8192)), ("crlf", json!(false))] {
        if v.get(k) != Some(&val) {
            let mut p = v.clone();
            p[k] = val;
            out.push(p);
        }
    }
    out
}

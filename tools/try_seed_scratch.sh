#!/bin/bash
# Like try_seed.sh but in a scratch copy (/tmp/scratch_try/{repo,verif}) so /repo is never touched.
# The scratch copy is refreshed from /repo HEAD and /verif's working tree on every call (rsync, cheap).
PATCH=$1; shift
S=/tmp/scratch_try
mkdir -p $S
rsync -a --delete --exclude target /repo/ $S/repo/ || exit 2
[ -n "$NO_VERIF_SYNC" ] || rsync -a --delete --exclude "target*" --exclude replays --exclude evidence /verif/ $S/verif/ || exit 2
mkdir -p $S/verif/evidence
cd $S/repo && git reset -q --hard HEAD
if ! git apply "$PATCH" 2>/tmp/try_seed_apply.err; then
  if ! git apply --3way "$PATCH" 2>>/tmp/try_seed_apply.err; then echo "APPLY-FAILED"; git reset -q --hard HEAD; exit 3; fi
  git reset -q
fi
cd $S/verif
for c in "$@"; do
  out=$(VERIF_REPO=$S/repo ./run check $c --tier quick --jobs ${JOBS:-8} 2>&1); rc=$?
  echo "$c rc=$rc $(echo "$out" | grep -E "^(VIOLATION|HARNESS)" | head -2 | cut -c1-300 | tr '\n' '|')"
done
cd $S/repo && git reset -q --hard HEAD

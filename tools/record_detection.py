#!/usr/bin/env python3
"""Reads the log of tools/detect_all.sh, writes seeded/<id>/detection.json and prints a markdown table."""
import json, re, sys, os
log = sys.argv[1] if len(sys.argv) > 1 else '/tmp/detect.log'
rows = []
for l in open(log):
    if '::' not in l:
        continue
    sid, rest = l.split(' :: ', 1)
    sid = sid.strip()
    results = []
    for m in re.finditer(r'(C\d+) rc=(\d)(?: VIOLATION property=(C\d+) replay=\S+ class=(\S+) runs=(\d+))?', rest):
        results.append({'check': m.group(1), 'exit': int(m.group(2)), 'violation_class': m.group(4), 'violating_runs': int(m.group(5)) if m.group(5) else 0})
    d = f'/verif/seeded/{sid}'
    if not os.path.isdir(d):
        continue
    json.dump({'tier': 'quick', 'seed': 20260102, 'results': results}, open(f'{d}/detection.json', 'w'), indent=1)
    meta = json.load(open(f'{d}/meta.json'))
    caught = [r for r in results if r['exit'] == 1]
    own = [r for r in caught if r['check'] == sid.split('-')[0]]
    summ = (meta.get('summary') or '')[:140].replace('|', '/').replace('\n', ' ')
    needs = (meta.get('needs') or '')[:120].replace('|', '/').replace('\n', ' ')
    by = '; '.join(f"{r['check']}: {r['violation_class']} ({r['violating_runs']} runs)" for r in caught) or 'MISSED'
    rows.append(f"| {sid} | {summ} | {needs} | {by} |")
print("| seed | change | needs | caught by (check: class, violating runs in the quick tier) |\n|---|---|---|---|")
print("\n".join(rows))

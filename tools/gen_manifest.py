#!/usr/bin/env python3
"""Regenerates /verif/MANIFEST.json from the table below (kept valid at all times)."""
import json, os, subprocess
HERE = os.path.dirname(os.path.dirname(os.path.abspath(__file__)))
ids = [json.loads(l)['id'] for l in open(os.path.join(HERE, 'properties.jsonl'))]

BOARD_NOTE = ("Trusted base: the independent reference chess model (sim/src/refchess, ~900 lines, perft self-test against published numbers at every start) and the harness. "
              "Assumes positions are reachable by legal play from the curated pool (185 FENs incl. colour-flipped twins, all castling subsets, e.p. pins, promotions, mates) with half-move clocks <= 4095.")
claimed = {
 "C01": dict(cat="exploration", tech="seeded operation-history simulation of one live board vs. reference model (BoardSim)",
   text="Seeded simulation: one long-lived Bitboard is driven through random operation histories (play, take back, probe every pseudo-legal move, perft, restore from FEN) and after EVERY operation the legal-move set, the make/is_valid-filtered pseudo-legal set, perft divide and the capture/promotion generator are compared as sets with an independent rules implementation. No schedule/clock/fault exists in move generation; what is simulated is the history that produces the incremental board state. Sampling, not proof.", ref="5/C01"),
 "C02": dict(cat="exploration", tech="seeded operation-history simulation vs. reference successor function (BoardSim)",
   text="Every move made in a seeded history (and, inside ProbeAll, every legal successor of every visited position) is compared in all six FEN fields and structurally with the successor computed by the reference model; clocks are drawn up to 3650 and move numbers up to 2400.", ref="5/C02"),
 "C03": dict(cat="exploration", tech="seeded simulation with aborted operations (make+unmake of illegal pseudo-legal moves) and multi-move rollback",
   text="Rollback is the in-process analogue of crash recovery: every pseudo-legal move (legal or not) of every visited position is made and unmade and whole lines are unmade in reverse; snapshot (12 occupancies, rights, e.p., clocks, both hashes) before == after; clocks 0..4095.", ref="5/C03"),
 "C05": dict(cat="exploration", tech="seeded operation-history simulation incl. mid-operation states vs. reference attack computation",
   text="is_in_check(W/B), is_current_in_check and is_valid are compared with the reference at every visited position and in the intermediate state after make of every pseudo-legal move (own king possibly attacked, both kings possibly attacked); mate vs stalemate classification through the empty legal-move set.", ref="5/C05"),
 "C06": dict(cat="exploration", tech="seeded history simulation: threaded incremental hashes, transposed orders, take-backs, restarts, single-component variants",
   text="(hash, pawn hash) are threaded by xor exactly as the search does and compared with the from-scratch value after every make/unmake; a run-global key<->hash map enforces order/clock independence; explicit transposition pairs; single-component variants must hash differently.", ref="5/C06"),
 "C12": dict(cat="exploration", tech="seeded simulation with restart-from-serialized-state and single-fault corruption of the stored text",
   text="At random points the live board is written as FEN, dropped and re-read; the re-read instance carries the rest of the history. Stored text is corrupted by 19 single-fault mutation kinds and arbitrary bytes; a strict reference grammar decides accept/reject, accepted text must decode to exactly what it says, nothing may panic.", ref="5/C12"),
 "C13": dict(cat="exploration", tech="seeded simulation with a fault injected at an arbitrary index of a multi-step operation (atomic rollback)",
   text="Move strings of every class (legal, pinned piece, wrong/missing/superfluous promotion letter, 64x64x6, malformed) are fed to find_uci/make_uci/uci_to_pgn/pgn_to_bb and make_all_uci gets lists with a rejected move at index j; Ok iff legal per reference; after Err the full snapshot is unchanged, and because the board lives on any residue is caught by the next cross-check.", ref="5/C13"),
 "C14": dict(cat="exploration", tech="seeded simulation with SAN log/replay vs. reference SAN writer",
   text="For all legal moves of every visited position uci_to_pgn equals the reference canonical SAN and pgn_to_bb inverts it; SAN-looking non-moves are rejected; the SAN log of each run is replayed from the initial position through pgn_to_bb and must land on the live position.", ref="5/C14"),
 "C07": dict(cat="exploration", tech="deterministic simulation of the whole UCI engine: lock-step scheduler over the 3 real threads, simulated clock, seeded GUI with fault injection",
   text="The real reader loop, parser, Engine::accept, mpsc channel, search thread and console writer run under a lock-step scheduler that decides which thread proceeds and at which poll (node count) each GUI line becomes visible; the clock is simulated (node cost 1 ns..100 ms, forward/backward jumps). Seeded sessions of 1-8 position/go cycles on one engine with every go-parameter subset/order, stop/quit/noise/corrupted lines during search, stop queued before go is dequeued, follow-your-own-PV games, already-threefold roots, move numbers up to 9000. Oracle per cycle: exactly one bestmove, legal in the last accepted position, inside searchmoves, never 0000 unless no legal move; no thread panic; liveness in negamax nodes after the last fault.", ref="5/C07", note="ENGINE"),
 "C08": dict(cat="exploration", tech="EngineSim sessions with randomised knobs vs. reference alpha-beta minimax (engine's own leaf evaluation through a hook)",
   text="Every depth-limited cycle (d<=3, and 2N-1 on reference-proven mates in N<=3) of a seeded multi-cycle session on ONE engine instance - whatever was searched before, with TT capacity down to 1, varying poll cadence and node cost - must report exactly the value of an independent fail-soft alpha-beta search without TT/killers/PV reuse over the reference move generator, and the announced move must attain it; positive mate scores must come with a legal PV of 2N-1 plies ending in mate; forced mates in N=1..3 (270 reference-proven positions, both colours) must be announced as mate N by the depth 2N-1 search with a mating first move; sessions re-search the same position at smaller depth and walk shuffling games as bare FENs so that tables/history carried over on the instance cannot change a value.", ref="5/C08 and 14", note="ENGINE"),
 "C09": dict(cat="fault_enumeration", tech="enumeration of every interruption point (poll) of a search x {stop, quit, simulated movetime expiry} under the lock-step scheduler",
   text="For each seeded plan a dry run lists every node count at which the abort flag can be observed (poll interval 512: all plies, iterations 2..5); the plan is re-executed once per point and interrupt kind, followed by go depth 1 without position, two more interrupted searches and go depth 1 again. Oracle: at every idle point the search thread's board (read back through the hook) equals the last accepted position in all six FEN fields; follow-up depth-1 score equals the exact reference value; interrupted searches answer one bestmove equal to the first move of the last reported PV; quit joins. Seven of eight runs are generic fault-injecting sessions (stop/quit/clock expiry at seeded polls, stop queued behind go, a position command arriving during the search, redundant stops while idle, forced-repetition games) judged by the same read-back oracle; a failed follow-up search is a C09 violation.", ref="5/C09 and 14", note="ENGINE"),
 "C15": dict(cat="exploration", tech="seeded corruption/duplication/truncation of lines on the GUI->engine text seam through the real reader loop (LineSim) + engine sessions",
   text="300-600 lines per run (grammar-generated with random spacing and parameter order, token/byte-mutated, arbitrary bytes) travel through the real ConsoleUciRx read seam; each parse result is compared with a reference parser (exactly / must-be-error / unspecified); all 64x64x6 move texts round-trip; a panic is observed as what it is in production (the reader dies). One run in eight is a full engine session so that a misread shows by its effect and the session must stay live afterwards.", ref="5/C15", note="LINE"),
 "C16": dict(cat="exploration", tech="EngineSim: two writer threads on one output stream under the lock-step scheduler, multi-cycle sessions with carried state",
   text="Every line either thread writes in every simulated session is parsed by a reference grammar of engine->GUI messages; within each go..bestmove window depth/nodes/time never decrease (time only when no backward clock jump was injected), every PV is legal from the searched position, bestmove/ponder are the first/second move of the last reported PV, no ponder without a PV; sessions carry previous PV, ponder move, killer table and metrics across cycles (with/without ucinewgame, with/without stop, following the engine's own PV).", ref="5/C16", note="ENGINE"),
 "C10": dict(cat="exploration", tech="EngineSim sessions over seeded game histories (repetitions, clocks 0..150) bounded by a reference search with draw leaves at -/+contempt; seeded hash histories against ZobristHistory",
   text="Histories generated by the reference with shuffle bias (1-, 2-, 3-fold occurrences broken by pawn moves/captures, FEN starts with half-move clocks 0..150 and arbitrary move numbers) are supplied with position...moves; go depth 1 searchmoves m and go depth 1..3 in materially imbalanced positions; the reported score must lie between the reference values computed with repetition leaves valued -contempt and +contempt (negamax is 1-Lipschitz in its leaves) and no fifty-move draw leaf below clock 100 - so equality whenever no draw leaf is in reach. One run in four drives ZobristHistory::set/count_repetitions directly on seeded hash histories (start indices 0..4990, windows reaching index 0, irreversible-move marks).", ref="5/C10", note="ENGINE"),
 "C11": dict(cat="exploration", tech="twin engine replicas fed mirrored sessions (EngineSim) + static evaluation of every visited position vs. its colour-flipped twin (BoardSim)",
   text="Engine A plays a seeded session, engine B the colour-flipped session (FENs flipped, moves mirrored); score lines (cp / mate N) must be identical cycle by cycle whatever history each replica accumulated, with the C08 exactness oracle on for both; in BoardSim runs eval(P) = -eval(flip P) on every visited position incl. mates (mated side negative) and stalemates (draw score).", ref="5/C11", note="ENGINE"),
 "C17": dict(cat="exploration", tech="seeded fragmentation of the Read seam under PgnRawParser (StreamSim) with model, differential and replay oracles",
   text="Reference-generated game collections in the Lichess export layout are read through every chunk-size class and seeded read fragmentations (1-byte reads, short reads, shrink-then-grow, random); the iterator must yield exactly the generated games (tags, SAN, comments), equal the single-read result, and replay through pgn_to_bb to the reference final position. Truncated sources and ErrorKind::Interrupted are injected too but only reported (observational).", ref="5/C17", note="STREAM"),
 "C18": dict(cat="exploration", tech="seeded operation histories on the private HashTable (through a cfg-gated handle) vs. reference FIFO map; TT-capacity knob inside EngineSim searches",
   text="40k+ histories of put/get/clear/len over capacities 1..16 and tiny key universes (re-insertion of present and of evicted keys is the norm, unique values) compared after every operation with an insertion-ordered reference map: lookups, size <= capacity, FIFO victim, fill level. The EngineSim checks additionally run real searches with TT capacity 1..1024 (hashfull <= 1000 enforced, C08 exactness independent of capacity).", ref="5/C18", note="TABLE"),
 "C19": dict(cat="exploration", tech="seeded fragmentation / keep-alives / pending gaps on a simulated HTTP body under the real surf client, line reassembly and serde decode (ApiSim)",
   text="surf's HttpClient trait is the transport seam: a server model plays reference games (gameFull, gameState per move, chatLine, opponentGone) and event streams (gameStart, gameFinish, challenge*, every optional field independently present/absent, every enumerated key cycled, JSON escapes and non-ASCII text) and the body is released in planned fragments (inside UTF-8 sequences and escapes, between CR and LF) with keep-alive blank lines and Pending gaps; the real SurfWebClient::stream + BotApi streams must yield every item in order with every transmitted value, the move list element by element, replayable by the consumer logic, independent of the fragmentation.", ref="5/C19", note="API"),
}
API_NOTE = ("Trusted base: the harness' server model and JSON writer; document shapes from memory of the Lichess Bot API docs (offline), only fields/keys I am certain of are verdict-bearing. lichess_bot::GameThread is not executed; its consumer logic is re-applied to the decoded values. Separate crate /verif/sim_api (surf/http-client/curl stack).")
STREAM_NOTE = ("Trusted base: reference model (legal games, canonical SAN), the harness PGN writer (Lichess export layout), FragReader. ASCII tag values/comments without quotes or braces. Only complete inputs carry a verdict.")
TABLE_NOTE = ("Trusted base: a 30-line reference FIFO map. No schedule exists (the table is owned by the search thread alone); the simulated dimension is the operation history and the cache-size knob.")
ENGINE_NOTE = ("Trusted base: lock-step scheduler (sim/src/sched.rs), reference chess model, reference UCI grammars (sim/src/uciref.rs). Assumes a protocol-conformant GUI, poll-interval knob >= 512 (keeps 'iteration 1 completes before the first poll' true as with the shipped 100000), and that all cross-thread effects go through the mpsc channel and the UciTx sink. engine_app/src/main.rs is mirrored, not executed; setoption is parsed but not dispatched (todo!() in Engine::accept).")
LINE_NOTE = ("Trusted base: reference UCI parser sim/src/uciref.rs (written from the UCI text + behaviours pinned by the existing parser tests). Separators are blanks only; grey-area syntax (signs, leading zeros, tabs, upper-case promotion letters) is classified Unspecified: only no panic and no change of command kind is demanded there.")
NA = {
 "C04": "pure total function of (square, occupancy) over a finite const table: no schedule, clock, I/O, fault, history or configuration reaches it; deciding it is exhaustive enumeration (a different technique). BoardSim only reports incidental reach.",
}
checks = []
for i in ids:
    if i in claimed:
        c = claimed[i]
        checks.append({
            "property_id": i,
            "quick_cmd": f"./run check {i} --tier quick",
            "thorough_cmd": f"./run check {i} --tier thorough",
            "evidence_file": f"/verif/evidence/{i}.json",
            "replay_cmd_template": "./run replay {path}",
            "engine": "sim_api" if i == "C19" else "sim",
            "level_claimed": {"category": c["cat"], "text": c["text"], "design_ref": "DESIGN.md section " + c["ref"]},
            "level_note": {"ENGINE": ENGINE_NOTE, "LINE": LINE_NOTE, "STREAM": STREAM_NOTE, "TABLE": TABLE_NOTE, "API": API_NOTE}.get(c.get("note"), BOARD_NOTE),
            "technique": c["tech"],
        })
na = [{"property_id": i, "reason": NA.get(i, "check not built yet (work in progress in this session)")} for i in ids if i not in claimed]
hooks_commits = subprocess.run(["git", "-C", "/repo", "log", "--format=%h %s", "--grep", "^verif hooks"], capture_output=True, text=True).stdout.strip().splitlines()
m = {
 "version": 1,
 "setup_cmd": "./run setup",
 "hooks": {
   "guard": "inkayaku_verif",
   "enable": "RUSTFLAGS '--cfg inkayaku_verif' via /verif/sim/.cargo/config.toml ([build] rustflags); the simulator crate links /repo's crates by path, so every check rebuilds from the working tree",
   "baseline_off_cmd": "cd /repo && cargo nextest run --workspace --no-fail-fast --tool-config-file pb:/w/lib/nextest.toml --profile pb --test-threads 8 --offline  (fallback: cd /repo && cargo test --workspace --no-fail-fast --offline -- --skip run_all ; perft::run_all is an endless loop and is one of the 4 always-failing tests of the baseline)",
   "source_commits": [l.split()[0] for l in hooks_commits],
   "add_only": True,
 },
 "engines": [{"name": "sim_api", "path": "/verif/sim_api", "serves_properties": ["C19"], "kind_free_text": "Rust binary: ApiSim (simulated HTTP transport under the real surf client + lichess_api streams); driven by the sim binary's runner"}, {"name": "sim", "path": "/verif/sim", "serves_properties": sorted(claimed), "kind_free_text": "Rust binary: seeded deterministic simulators (BoardSim, EngineSim, StreamSim, TableSim/RepSim, LineSim) + independent reference chess model + plan minimiser/replayer"}],
 "checks": checks,
 "not_applicable": na,
 "notes": "exit 0 = held; exit 1 + 'VIOLATION property=<id> replay=<path>'; exit 2 = harness error. VERIF_SEED selects the base seed (default 20260102). Known findings: /verif/known_findings.jsonl.",
}
json.dump(m, open(os.path.join(HERE, 'MANIFEST.json'), 'w'), indent=1)
print("claimed", len(checks), "not_applicable", len(na))

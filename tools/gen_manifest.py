#!/usr/bin/env python3
"""Regenerates /verif/MANIFEST.json from the table below (kept valid at all times)."""
import json, os, subprocess
HERE = os.path.dirname(os.path.dirname(os.path.abspath(__file__)))
ids = [json.loads(l)['id'] for l in open(os.path.join(HERE, 'properties.jsonl'))]

BOARD_NOTE = ("Trusted base: the independent reference chess model (sim/src/refchess, ~900 lines, perft self-test against published numbers at every start) and the harness. "
              "Assumes positions are reachable by legal play from the curated pool (185 FENs incl. colour-flipped twins, all castling subsets, e.p. pins, promotions, mates) with half-move clocks <= 4095.")
claimed = {
 "C01": dict(cat="exploration", tech="seeded operation-history simulation of one live board vs. reference model (BoardSim)",
   text="Seeded simulation: one long-lived Bitboard is driven through random operation histories (play, take back, probe every pseudo-legal move, perft, restore from FEN) and after EVERY operation the legal-move set, the make/is_valid-filtered pseudo-legal set, perft divide and the capture/promotion generator are compared as sets with an independent rules implementation. No schedule/clock/fault exists in move generation; what is simulated is the history that produces the incremental board state. Sampling, not proof.", ref="5/C01"),
 "C02": dict(cat="exploration", tech="seeded operation-history simulation vs. reference successor function (BoardSim)",
   text="Every move made in a seeded history (and, inside ProbeAll, every legal successor of every visited position) is compared in all six FEN fields and structurally with the successor computed by the reference model; clocks are drawn up to 3650 and move numbers up to 2400.", ref="5/C02"),
 "C03": dict(cat="exploration", tech="seeded simulation with aborted operations (make+unmake of illegal pseudo-legal moves) and multi-move rollback",
   text="Rollback is the in-process analogue of crash recovery: every pseudo-legal move (legal or not) of every visited position is made and unmade and whole lines are unmade in reverse; snapshot (12 occupancies, rights, e.p., clocks, both hashes) before == after; clocks 0..4095.", ref="5/C03"),
 "C05": dict(cat="exploration", tech="seeded operation-history simulation incl. mid-operation states vs. reference attack computation",
   text="is_in_check(W/B), is_current_in_check and is_valid are compared with the reference at every visited position and in the intermediate state after make of every pseudo-legal move (own king possibly attacked, both kings possibly attacked); mate vs stalemate classification through the empty legal-move set.", ref="5/C05"),
 "C06": dict(cat="exploration", tech="seeded history simulation: threaded incremental hashes, transposed orders, take-backs, restarts, single-component variants",
   text="(hash, pawn hash) are threaded by xor exactly as the search does and compared with the from-scratch value after every make/unmake; a run-global key<->hash map enforces order/clock independence; explicit transposition pairs; single-component variants must hash differently.", ref="5/C06"),
 "C12": dict(cat="exploration", tech="seeded simulation with restart-from-serialized-state and single-fault corruption of the stored text",
   text="At random points the live board is written as FEN, dropped and re-read; the re-read instance carries the rest of the history. Stored text is corrupted by 19 single-fault mutation kinds and arbitrary bytes; a strict reference grammar decides accept/reject, accepted text must decode to exactly what it says, nothing may panic.", ref="5/C12"),
 "C13": dict(cat="exploration", tech="seeded simulation with a fault injected at an arbitrary index of a multi-step operation (atomic rollback)",
   text="Move strings of every class (legal, pinned piece, wrong/missing/superfluous promotion letter, 64x64x6, malformed) are fed to find_uci/make_uci/uci_to_pgn/pgn_to_bb and make_all_uci gets lists with a rejected move at index j; Ok iff legal per reference; after Err the full snapshot is unchanged, and because the board lives on any residue is caught by the next cross-check.", ref="5/C13"),
 "C14": dict(cat="exploration", tech="seeded simulation with SAN log/replay vs. reference SAN writer",
   text="For all legal moves of every visited position uci_to_pgn equals the reference canonical SAN and pgn_to_bb inverts it; SAN-looking non-moves are rejected; the SAN log of each run is replayed from the initial position through pgn_to_bb and must land on the live position.", ref="5/C14"),
}
NA = {
 "C04": "pure total function of (square, occupancy) over a finite const table: no schedule, clock, I/O, fault, history or configuration reaches it; deciding it is exhaustive enumeration (a different technique). BoardSim only reports incidental reach.",
}
checks = []
for i in ids:
    if i in claimed:
        c = claimed[i]
        checks.append({
            "property_id": i,
            "quick_cmd": f"./run check {i} --tier quick",
            "thorough_cmd": f"./run check {i} --tier thorough",
            "evidence_file": f"/verif/evidence/{i}.json",
            "replay_cmd_template": "./run replay {path}",
            "engine": "sim",
            "level_claimed": {"category": c["cat"], "text": c["text"], "design_ref": "DESIGN.md section " + c["ref"]},
            "level_note": c.get("note", BOARD_NOTE),
            "technique": c["tech"],
        })
na = [{"property_id": i, "reason": NA.get(i, "check not built yet (work in progress in this session)")} for i in ids if i not in claimed]
hooks_commits = subprocess.run(["git", "-C", "/repo", "log", "--format=%h %s", "--grep", "^verif hooks"], capture_output=True, text=True).stdout.strip().splitlines()
m = {
 "version": 1,
 "setup_cmd": "./run setup",
 "hooks": {
   "guard": "inkayaku_verif",
   "enable": "RUSTFLAGS '--cfg inkayaku_verif' via /verif/sim/.cargo/config.toml ([build] rustflags); the simulator crate links /repo's crates by path, so every check rebuilds from the working tree",
   "baseline_off_cmd": "cd /repo && cargo test --workspace --no-fail-fast --offline",
   "source_commits": [l.split()[0] for l in hooks_commits],
   "add_only": True,
 },
 "engines": [{"name": "sim", "path": "/verif/sim", "serves_properties": sorted(claimed), "kind_free_text": "Rust binary: seeded deterministic simulators (BoardSim, EngineSim, StreamSim, TableSim, LineSim) + independent reference chess model + plan minimiser/replayer"}],
 "checks": checks,
 "not_applicable": na,
 "notes": "exit 0 = held; exit 1 + 'VIOLATION property=<id> replay=<path>'; exit 2 = harness error. VERIF_SEED selects the base seed (default 20260102). Known findings: /verif/known_findings.jsonl.",
}
json.dump(m, open(os.path.join(HERE, 'MANIFEST.json'), 'w'), indent=1)
print("claimed", len(checks), "not_applicable", len(na))

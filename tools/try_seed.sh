#!/bin/bash
# Applies a seeded change to /repo, runs the given checks (quick tier), reverts. Prints one line per check.
PATCH=$1; shift
cd /repo || exit 2
if ! git diff --quiet; then echo "/repo is dirty, refusing"; exit 2; fi
if ! git apply "$PATCH" 2>/tmp/try_seed_apply.err; then
  if ! git apply --3way "$PATCH" 2>>/tmp/try_seed_apply.err; then echo "APPLY-FAILED"; git reset -q --hard HEAD; exit 3; fi
  git reset -q
fi
cd /verif
for c in "$@"; do
  out=$(./run check $c --tier quick --evidence /tmp/try_seed_evidence.json 2>&1); rc=$?
  echo "$c rc=$rc $(echo "$out" | grep -E "^VIOLATION" | head -2 | cut -c1-300 | tr '\n' '|')"
done
git -C /repo reset -q --hard HEAD
git -C /repo status --short | head -3

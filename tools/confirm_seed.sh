#!/bin/bash
# Confirms a seeded change in its scratch worktree: demo passes on the pinned tree, fails with the
# patch; the repository's own suite (minus the 4 always-failing tests) still passes with the patch.
ID=$1; VAR=$2
WT=/tmp/seed/$ID/wt; OUT=/tmp/seed/$ID/out/$VAR
LOG=$OUT/confirm.log; : > $LOG
README=$OUT/demo/README.md
PKG=$(grep -o "cargo test -p inkayaku_[a-z_]*" $README | head -1 | awk '{print $4}')
NAME=$(grep -o "\-\-test [A-Za-z0-9_]*" $README | head -1 | awk '{print $2}')
DIR=${PKG#inkayaku_}
cd $WT || exit 2
git checkout -q -- . ; git clean -fdq -e target
mkdir -p $DIR/tests; cp $OUT/demo/*.rs $DIR/tests/
echo "## demo on pinned tree" >> $LOG
cargo test -p $PKG --offline --test $NAME >> $LOG 2>&1; RC_CLEAN=$?
git apply $OUT/patch.diff >> $LOG 2>&1 || { echo "$ID/$VAR APPLY-FAILED" >> /tmp/seed/confirm_summary.txt; exit 1; }
echo "## demo with patch" >> $LOG
cargo test -p $PKG --offline --test $NAME >> $LOG 2>&1; RC_PATCH=$?
rm -f $(for f in $OUT/demo/*.rs; do echo $DIR/tests/$(basename $f); done)
echo "## suite with patch" >> $LOG
timeout 1500 cargo test --workspace --no-fail-fast --offline -- --skip run_all > $OUT/suite.log 2>&1
PASSED=$(grep -E "^test .* \.\.\. ok$" $OUT/suite.log | wc -l)
FAILED=$(grep -E "^test .* \.\.\. FAILED$" $OUT/suite.log | sed 's/ \.\.\. FAILED//' | sort | tr '\n' ' ')
git checkout -q -- . ; git clean -fdq -e target
echo "$ID/$VAR demo_clean_rc=$RC_CLEAN demo_patched_rc=$RC_PATCH suite_passed=$PASSED suite_failed=[$FAILED]" >> /tmp/seed/confirm_summary.txt

#!/bin/bash
# Confirms a seeded change in its scratch worktree: demo passes on the unmodified tree, fails with the
# patch; the repository's own suite (minus the always-failing tests) still passes with the patch.
ID=$1; VAR=$2
BASE=${SEEDBASE:-/tmp/seed}; WT=$BASE/$ID/wt; OUT=$BASE/$ID/out/$VAR
LOG=$OUT/confirm.log; : > $LOG
README=$OUT/demo/README.md
PKG=$(grep -o "\-p inkayaku_[a-z_]*" $README | head -1 | awk '{print $2}')
NAME=$(grep -o "\-\-test [A-Za-z0-9_]*" $README | head -1 | awk '{print $2}')
DIR=${PKG#inkayaku_}
cd $WT || exit 2
git checkout -q -- . ; git clean -fdq -e target
INSTALL=$(ls $OUT/demo/install_mod_line.diff $OUT/demo/hook.diff $OUT/demo/demo.diff 2>/dev/null | head -1)
# special layouts: DEMO_DEST = directory the demo .rs goes to, DEMO_APPEND = "file::line" appended while the demo is installed
DEST=${DEMO_DEST:-engine_core/src/engine}
DEMOFILES=$(find $OUT/demo -name '*.rs')
install_demo() {
  if [ -n "$DEMO_APPEND" ]; then
    mkdir -p $DEST; for f in $DEMOFILES; do cp $f $DEST/; done; echo "${DEMO_APPEND#*::}" >> ${DEMO_APPEND%%::*}
  elif [ -n "$INSTALL" ]; then
    mkdir -p $DEST; git apply $INSTALL; for f in $DEMOFILES; do cp $f $DEST/; done
  else
    mkdir -p $DIR/tests; for f in $DEMOFILES; do cp $f $DIR/tests/; done
  fi
}
remove_demo() {
  if [ -n "$DEMO_APPEND" ]; then sed -i '$ d' ${DEMO_APPEND%%::*}; for f in $DEMOFILES; do rm -f $DEST/$(basename $f); done
  elif [ -n "$INSTALL" ]; then git apply -R $INSTALL; for f in $DEMOFILES; do rm -f $DEST/$(basename $f); done
  else for f in $DEMOFILES; do rm -f $DIR/tests/$(basename $f); done; fi
}
run_demo() {
  if [ -n "$INSTALL" ] || [ -n "$DEMO_APPEND" ]; then FILTER=$(basename $(echo $DEMOFILES | awk '{print $1}') .rs); cargo test -p $PKG --offline $FILTER
  else cargo test -p $PKG --offline --test $NAME; fi
}
install_demo
echo "## demo on unmodified tree" >> $LOG
run_demo >> $LOG 2>&1; RC_CLEAN=$?
remove_demo
git apply $OUT/patch.diff >> $LOG 2>&1 || { echo "$ID/$VAR APPLY-FAILED" >> $BASE/confirm_summary.txt; exit 1; }
install_demo
echo "## demo with patch" >> $LOG
run_demo >> $LOG 2>&1; RC_PATCH=$?
remove_demo
echo "## suite with patch" >> $LOG
timeout 1500 cargo test --workspace --no-fail-fast --offline -- --skip run_all > $OUT/suite.log 2>&1
PASSED=$(grep -E "^test .* \.\.\. ok$" $OUT/suite.log | wc -l)
FAILED=$(grep -E "^test .* \.\.\. FAILED$" $OUT/suite.log | sed 's/ \.\.\. FAILED//' | sort | tr '\n' ' ')
git checkout -q -- . ; git clean -fdq -e target
echo "$ID/$VAR demo_clean_rc=$RC_CLEAN demo_patched_rc=$RC_PATCH suite_passed=$PASSED suite_failed=[$FAILED]" >> $BASE/confirm_summary.txt

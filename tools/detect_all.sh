#!/bin/bash
# Runs every kept seeded change against the check of the property it breaks (plus `also_checks` of its
# meta.json) in a scratch copy of /repo and /verif (never touches /repo). One line per seed in $1 and the
# result is written into seeded/<id>/detection.json. ONLY=<regex> restricts the sweep to matching seed ids.
OUT=${1:-/tmp/detect.log}; START=${2:-}; [ -n "$START" ] || : > $OUT
S=/tmp/scratch_try
mkdir -p $S && rsync -a --delete --exclude "target*" --exclude replays --exclude evidence /verif/ $S/verif/
for d in /verif/seeded/*/; do
  id=$(basename $d); prop=${id%%-*}
  if [ -n "$START" ] && [[ "$id" < "$START" ]]; then continue; fi
  if [ -n "$ONLY" ] && ! [[ "$id" =~ $ONLY ]]; then continue; fi
  patch=$d/patch.diff; [ -f $d/patch.ported.diff ] && patch=$d/patch.ported.diff
  extra=$(python3 -c "import json;print(' '.join(json.load(open('$d/meta.json')).get('also_checks',[])))" 2>/dev/null)
  line=$(NO_VERIF_SYNC=1 JOBS=${JOBS:-8} timeout 3000 /verif/tools/try_seed_scratch.sh $patch $prop $extra 2>&1 | cut -c1-300 | tr '\n' ' ')
  echo "$id :: $line" >> $OUT
done
echo DONE >> $OUT

#!/bin/bash
# Runs every kept seeded change against the check of the property it breaks. One line per seed.
OUT=${1:-/tmp/seed/detect.log}; : > $OUT
for d in /verif/seeded/*/; do
  id=$(basename $d); prop=${id%%-*}
  patch=$d/patch.diff; [ -f $d/patch.ported.diff ] && patch=$d/patch.ported.diff
  extra=$(python3 -c "import json;print(' '.join(json.load(open('$d/meta.json')).get('also_checks',[])))" 2>/dev/null)
  line=$(timeout 1800 /verif/tools/try_seed.sh $patch $prop $extra 2>&1 | cut -c1-260 | tr '\n' ' ')
  echo "$id :: $line" >> $OUT
done
echo DONE >> $OUT

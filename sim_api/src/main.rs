//! ApiSim — Lichess ND-JSON streams over a simulated HTTP body (C19).
//! `surf::Config::set_http_client` is the transport seam: `SimHttp` answers the two stream
//! endpoints with a body that releases the server model's bytes in planned fragments
//! (inside UTF-8 sequences, inside JSON escapes, between CR and LF), interleaved with keep-alive
//! blank lines and `Poll::Pending` gaps. Real code on top: `SurfWebClient::stream` (line
//! reassembly, blank-line skipping) and `BotApi::stream_bot_game_state` /
//! `stream_incoming_events` (serde decode).

#[path = "../../sim/src/common.rs"]
mod common;
#[path = "../../sim/src/refchess/mod.rs"]
#[allow(dead_code)]
mod refchess;
#[path = "../../sim/src/rng.rs"]
#[allow(dead_code)]
mod rng;

use std::io::Write;
use std::os::fd::FromRawFd;
use std::panic::{catch_unwind, AssertUnwindSafe};
use std::pin::Pin;
use std::str::FromStr;
use std::sync::{Arc, Mutex};
use std::task::{Context, Poll};

use futures::io::{AsyncRead, BufReader};
use futures::StreamExt;
use http_client::http_types::{Body, Response, StatusCode};
use http_client::{async_trait, HttpClient, Request};
use inkayaku_board::Bitboard;
use inkayaku_lichess_api::api::{BotApi, SurfWebClient};
use inkayaku_uci::UciMove;
use serde::{Deserialize, Serialize};
use serde_json::{json, Value};

use common::{panic_message, RunResult, Violation};
use refchess::{Mv, Pos};
use rng::{Fnv, Rng};

// ------------------------------------------------------------------ plan

#[derive(Clone, Debug, Serialize, Deserialize, PartialEq)]
pub struct Doc {
    pub wire: String,
    /// (JSON pointer into serde_json::to_value(decoded), expected value)
    pub expect: Vec<(String, Value)>,
    /// for game-stream documents carrying a move list: (initial FEN or "startpos", moves, white to move afterwards)
    pub game: Option<(String, Vec<String>, bool)>,
}

#[derive(Clone, Debug, Serialize, Deserialize, PartialEq)]
pub struct ApiPlan {
    pub stream: String,
    pub docs: Vec<Doc>,
    /// number of keep-alive blank lines sent before doc i (cyclic)
    pub keepalives: Vec<u8>,
    pub crlf: bool,
    /// per-poll byte maxima (cyclic); 0 = everything available
    pub frag: Vec<usize>,
    /// every n-th poll answers Pending first (0 = never)
    pub pending_every: usize,
    pub bufcap: usize,
}

// ------------------------------------------------------------------ transport

struct FragBody {
    data: Vec<u8>,
    pos: usize,
    frag: Vec<usize>,
    call: usize,
    pending_every: usize,
    stats: Arc<Mutex<(u64, u64, u64)>>,
}

impl AsyncRead for FragBody {
    fn poll_read(mut self: Pin<&mut Self>, cx: &mut Context<'_>, buf: &mut [u8]) -> Poll<std::io::Result<usize>> {
        let k = self.call;
        self.call += 1;
        if self.pending_every > 0 && k % self.pending_every == self.pending_every - 1 {
            if let Ok(mut s) = self.stats.lock() {
                s.2 += 1;
            }
            cx.waker().wake_by_ref();
            return Poll::Pending;
        }
        let remaining = self.data.len() - self.pos;
        if remaining == 0 || buf.is_empty() {
            return Poll::Ready(Ok(0));
        }
        let want = if self.frag.is_empty() { 0 } else { self.frag[k % self.frag.len()] };
        let n = if want == 0 { buf.len() } else { want.min(buf.len()) }.min(remaining);
        let start = self.pos;
        buf[..n].copy_from_slice(&self.data[start..start + n]);
        self.pos += n;
        if let Ok(mut s) = self.stats.lock() {
            s.0 += 1;
            // did this fragment end inside a UTF-8 sequence?
            if self.pos < self.data.len() && (self.data[self.pos] & 0xC0) == 0x80 {
                s.1 += 1;
            }
        }
        Poll::Ready(Ok(n))
    }
}

#[derive(Debug)]
struct SimHttp {
    body: Mutex<Option<(Vec<u8>, Vec<usize>, usize, usize)>>,
    stats: Arc<Mutex<(u64, u64, u64)>>,
    urls: Mutex<Vec<String>>,
}

#[async_trait]
impl HttpClient for SimHttp {
    async fn send(&self, req: Request) -> Result<Response, http_client::Error> {
        if let Ok(mut u) = self.urls.lock() {
            u.push(req.url().path().to_string());
        }
        let mut res = Response::new(StatusCode::Ok);
        let taken = self.body.lock().ok().and_then(|mut b| b.take());
        if let Some((data, frag, pending_every, bufcap)) = taken {
            let reader = FragBody { data, pos: 0, frag, call: 0, pending_every, stats: self.stats.clone() };
            res.set_body(Body::from_reader(BufReader::with_capacity(bufcap.max(1), reader), None));
        }
        Ok(res)
    }
}

// ------------------------------------------------------------------ server model (document generator)

const ESC_TEXTS: &[&str] = &["Good luck, have fun", "say \"hi\"", "back\\slash", "tab\there", "line\nbreak", "é ß 漢字 🙂", "</script>", "a,b c", "", "\u{7f}\u{1}"];

fn json_string(s: &str, rng: &mut Rng) -> String {
    // serde_json escaping, sometimes forcing \uXXXX escapes for non-ASCII / ASCII characters
    let mut out = String::from("\"");
    for c in s.chars() {
        match c {
            '"' => out.push_str("\\\""),
            '\\' => out.push_str("\\\\"),
            '\n' => out.push_str("\\n"),
            '\t' => out.push_str("\\t"),
            c if (c as u32) < 0x20 || c as u32 == 0x7f => out.push_str(&format!("\\u{:04x}", c as u32)),
            c if rng.chance(1, 6) => {
                let mut b = [0u16; 2];
                for u in c.encode_utf16(&mut b) {
                    out.push_str(&format!("\\u{:04x}", u));
                }
            }
            '/' if rng.chance(1, 3) => out.push_str("\\/"),
            c => out.push(c),
        }
    }
    out.push('"');
    out
}

struct ObjB {
    fields: Vec<(String, String)>,
}

impl ObjB {
    fn new() -> Self {
        ObjB { fields: Vec::new() }
    }
    fn raw(&mut self, k: &str, v: String) -> &mut Self {
        self.fields.push((k.to_string(), v));
        self
    }
    fn render(&self, rng: &mut Rng, shuffle: bool) -> String {
        let mut f = self.fields.clone();
        if shuffle {
            rng.shuffle(&mut f);
        }
        let ws = if rng.chance(1, 4) { " " } else { "" };
        let body: Vec<String> = f.iter().map(|(k, v)| format!("\"{}\":{}{}", k, ws, v)).collect();
        format!("{{{}}}", body.join(&format!(",{}", ws)))
    }
}

const STATUS: &[&str] = &["created", "started", "aborted", "mate", "resign", "stalemate", "timeout", "draw", "outoftime", "cheat", "noStart", "unknownFinish", "variantEnd"];
const VARIANTS: &[(&str, &str, &str)] = &[("standard", "Standard", "Std"), ("chess960", "Chess960", "960"), ("fromPosition", "From Position", "FEN"), ("kingOfTheHill", "King of the Hill", "KotH"), ("threeCheck", "Three-check", "3check"), ("antichess", "Antichess", "Anti"), ("atomic", "Atomic", "Atom"), ("horde", "Horde", "Horde"), ("racingKings", "Racing Kings", "Racing"), ("crazyhouse", "Crazyhouse", "Crazy")];
const SPEEDS: &[&str] = &["ultraBullet", "bullet", "blitz", "rapid", "classical", "correspondence"];
const SOURCES: &[&str] = &["lobby", "friend", "ai", "api", "position", "import", "simul", "relay", "pool", "swiss"];
const PERFS: &[&str] = &["ultraBullet", "bullet", "blitz", "rapid", "classical", "correspondence", "chess960", "kingOfTheHill", "antichess", "atomic", "threeCheck", "racingKings", "crazyhouse"];

fn opt<T>(rng: &mut Rng, f: impl FnOnce(&mut Rng) -> T) -> Option<T> {
    if rng.chance(1, 2) {
        Some(f(rng))
    } else {
        None
    }
}

fn state_fields(rng: &mut Rng, moves: &[String], status: &str, expect: &mut Vec<(String, Value)>, prefix: &str) -> ObjB {
    let mut o = ObjB::new();
    let (wtime, btime, winc, binc) = (rng.below(8_000_000) as u32, rng.below(8_000_000) as u32, *rng.pick(&[0u32, 1000, 10000]), *rng.pick(&[0u32, 2000, 10000]));
    // an empty move list is sent as "" (or, for gameFull of a fresh game, possibly not at all)
    if !(moves.is_empty() && rng.chance(1, 4)) {
        o.raw("moves", format!("\"{}\"", moves.join(" ")));
    }
    expect.push((format!("{}/moves", prefix), json!(moves)));
    o.raw("wtime", wtime.to_string()).raw("btime", btime.to_string()).raw("winc", winc.to_string()).raw("binc", binc.to_string());
    expect.push((format!("{}/wtime", prefix), json!(wtime)));
    expect.push((format!("{}/btime", prefix), json!(btime)));
    expect.push((format!("{}/winc", prefix), json!(winc)));
    expect.push((format!("{}/binc", prefix), json!(binc)));
    o.raw("status", format!("\"{}\"", status));
    expect.push((format!("{}/status", prefix), json!(status)));
    for k in ["wdraw", "bdraw", "wtakeback", "btakeback"] {
        let v = opt(rng, |r| r.chance(1, 2));
        if let Some(b) = v {
            o.raw(k, b.to_string());
        }
        expect.push((format!("{}/{}", prefix, k), json!(v)));
    }
    let winner = if ["mate", "resign", "outoftime", "timeout"].contains(&status) { opt(rng, |r| if r.chance(1, 2) { "white" } else { "black" }) } else { None };
    if let Some(w) = winner {
        o.raw("winner", format!("\"{}\"", w));
    }
    expect.push((format!("{}/winner", prefix), json!(winner)));
    let rematch = opt(rng, |r| format!("{:08x}", r.below(u32::MAX as u64)));
    if let Some(r) = &rematch {
        o.raw("rematch", format!("\"{}\"", r));
    }
    expect.push((format!("{}/rematch", prefix), json!(rematch)));
    o
}

fn player(rng: &mut Rng, expect: &mut Vec<(String, Value)>, prefix: &str) -> String {
    let mut o = ObjB::new();
    let id = rng.pick(&["lovlas", "leela", "a-b_c", "x"]).to_string();
    o.raw("id", format!("\"{}\"", id));
    expect.push((format!("{}/id", prefix), json!(id)));
    let name = opt(rng, |r| r.pick(&["Lovlas", "Müller \"the\" 2nd", "漢"]).to_string());
    if let Some(n) = &name {
        let s = json_string(n, rng);
        o.raw("name", s);
    }
    expect.push((format!("{}/name", prefix), json!(name)));
    let title = opt(rng, |r| r.pick(&["IM", "BOT", "GM"]).to_string());
    if let Some(t) = &title {
        o.raw("title", format!("\"{}\"", t));
    } else if rng.chance(1, 3) {
        o.raw("title", "null".into());
    }
    expect.push((format!("{}/title", prefix), json!(title)));
    let rating = opt(rng, |r| 600 + r.below(2600) as u32);
    if let Some(r) = rating {
        o.raw("rating", r.to_string());
    }
    expect.push((format!("{}/rating", prefix), json!(rating)));
    let prov = opt(rng, |r| r.chance(1, 2));
    if let Some(p) = prov {
        o.raw("provisional", p.to_string());
    }
    expect.push((format!("{}/provisional", prefix), json!(prov)));
    let ai = opt(rng, |r| 1 + r.below(8) as u32).filter(|_| rng.chance(1, 3));
    if let Some(a) = ai {
        o.raw("aiLevel", a.to_string());
    }
    expect.push((format!("{}/aiLevel", prefix), json!(ai)));
    o.render(rng, true)
}

fn gen_game_stream(rng: &mut Rng, pool: &[Pos]) -> Vec<Doc> {
    let from_pos = rng.chance(1, 4);
    let start = if from_pos {
        let mut p = rng.pick(pool).clone();
        let mut tries = 0;
        while !p.has_legal_move() && tries < 20 {
            p = rng.pick(pool).clone();
            tries += 1;
        }
        p.half = p.half.min(100);
        p
    } else {
        Pos::start()
    };
    let initial_fen = if from_pos { start.to_fen() } else { "startpos".to_string() };
    let n_moves = *rng.pick(&[0usize, 0, 1, 2, 7, 20, 60, 150, 300]);
    let mut cur = start.clone();
    let mut all_moves: Vec<String> = Vec::new();
    let mut sides: Vec<bool> = vec![cur.white_to_move];
    for _ in 0..n_moves {
        let legal = cur.legal_moves();
        if legal.is_empty() {
            break;
        }
        let castle: Vec<&Mv> = legal.iter().filter(|m| refchess::kind(cur.board[m.from as usize]) == b'k' && (refchess::file_of(m.to) - refchess::file_of(m.from)).abs() == 2).collect();
        let promo: Vec<&Mv> = legal.iter().filter(|m| m.promo.is_some()).collect();
        let m = if !castle.is_empty() && rng.chance(1, 2) {
            **rng.pick(&castle)
        } else if !promo.is_empty() && rng.chance(1, 2) {
            **rng.pick(&promo)
        } else {
            *rng.pick(&legal)
        };
        all_moves.push(m.uci());
        cur = cur.apply(&m);
        sides.push(cur.white_to_move);
    }
    let mut docs = Vec::new();
    // gameFull with a prefix of the moves
    let pre = if all_moves.is_empty() { 0 } else { rng.usize_below(all_moves.len().min(4) + 1) };
    {
        let mut expect = vec![("/type".to_string(), json!("gameFull"))];
        let mut o = ObjB::new();
        o.raw("type", "\"gameFull\"".into());
        let id = format!("{:08x}", rng.below(u32::MAX as u64));
        o.raw("id", format!("\"{}\"", id));
        expect.push(("/id".into(), json!(id)));
        let v = if from_pos { VARIANTS[2] } else { *rng.pick(VARIANTS) };
        o.raw("variant", format!("{{\"key\":\"{}\",\"name\":\"{}\",\"short\":\"{}\"}}", v.0, v.1, v.2));
        expect.push(("/variant/key".into(), json!(v.0)));
        expect.push(("/variant/name".into(), json!(v.1)));
        let speed = *rng.pick(SPEEDS);
        o.raw("speed", format!("\"{}\"", speed));
        expect.push(("/speed".into(), json!(speed)));
        o.raw("perf", "{\"name\":\"Classical\"}".into());
        expect.push(("/perf/name".into(), json!("Classical")));
        let rated = rng.chance(1, 2);
        o.raw("rated", rated.to_string());
        expect.push(("/rated".into(), json!(rated)));
        let created = 1_500_000_000_000u64 + rng.below(300_000_000_000);
        o.raw("createdAt", created.to_string());
        expect.push(("/createdAt".into(), json!(created)));
        let w = player(rng, &mut expect, "/white");
        let b = player(rng, &mut expect, "/black");
        o.raw("white", w).raw("black", b);
        o.raw("initialFen", format!("\"{}\"", initial_fen));
        expect.push(("/initialFen".into(), json!(initial_fen)));
        let clock = opt(rng, |r| (r.below(10_800_000) as u32, *r.pick(&[0u32, 1000, 10000, 180000])));
        if let Some((i, inc)) = clock {
            o.raw("clock", format!("{{\"initial\":{},\"increment\":{}}}", i, inc));
            expect.push(("/clock/initial".into(), json!(i)));
            expect.push(("/clock/increment".into(), json!(inc)));
        } else {
            expect.push(("/clock".into(), Value::Null));
        }
        let days = opt(rng, |r| 1 + r.below(14) as u32).filter(|_| clock.is_none());
        if let Some(d) = days {
            o.raw("daysPerTurn", d.to_string());
        }
        expect.push(("/daysPerTurn".into(), json!(days)));
        let tid = opt(rng, |r| format!("t{:06x}", r.below(1 << 24)));
        if let Some(t) = &tid {
            o.raw("tournamentId", format!("\"{}\"", t));
        }
        expect.push(("/tournamentId".into(), json!(tid)));
        let mut st = state_fields(rng, &all_moves[..pre], "started", &mut expect, "/state");
        st.raw("type", "\"gameState\"".into());
        let st_text = st.render(rng, true);
        o.raw("state", st_text);
        docs.push(Doc { wire: o.render(rng, true), expect, game: Some((initial_fen.clone(), all_moves[..pre].to_vec(), sides[pre])) });
    }
    // gameState per move, chat lines and opponentGone interleaved
    for k in pre + 1..=all_moves.len() {
        if rng.chance(1, 8) {
            let room = if rng.chance(1, 2) { "player" } else { "spectator" };
            let user = rng.pick(&["thibault", "Müller", "a\"b"]).to_string();
            let text = rng.pick(ESC_TEXTS).to_string();
            let mut o = ObjB::new();
            o.raw("type", "\"chatLine\"".into()).raw("room", format!("\"{}\"", room));
            let (us, ts) = (json_string(&user, rng), json_string(&text, rng));
            o.raw("username", us).raw("text", ts);
            docs.push(Doc { wire: o.render(rng, true), expect: vec![("/type".into(), json!("chatLine")), ("/room".into(), json!(room)), ("/username".into(), json!(user)), ("/text".into(), json!(text))], game: None });
        }
        if rng.chance(1, 12) {
            let gone = rng.chance(1, 2);
            let claim = opt(rng, |r| r.below(60) as u32);
            let mut o = ObjB::new();
            o.raw("type", "\"opponentGone\"".into()).raw("gone", gone.to_string());
            if let Some(c) = claim {
                o.raw("claimWinInSeconds", c.to_string());
            }
            docs.push(Doc { wire: o.render(rng, true), expect: vec![("/type".into(), json!("opponentGone")), ("/gone".into(), json!(gone)), ("/claimWinInSeconds".into(), json!(claim))], game: None });
        }
        let last = k == all_moves.len();
        let status = if last && rng.chance(1, 2) { *rng.pick(STATUS) } else { "started" };
        let mut expect = vec![("/type".to_string(), json!("gameState"))];
        let mut st = state_fields(rng, &all_moves[..k], status, &mut expect, "");
        st.raw("type", "\"gameState\"".into());
        docs.push(Doc { wire: st.render(rng, true), expect, game: Some((initial_fen.clone(), all_moves[..k].to_vec(), sides[k])) });
        if docs.len() > 40 && !last && rng.chance(1, 3) {
            // long games: do not emit every single state (keeps runs short); jump ahead
            continue;
        }
    }
    docs
}

fn challenger(rng: &mut Rng, expect: &mut Vec<(String, Value)>, prefix: &str) -> String {
    let mut o = ObjB::new();
    let id = rng.pick(&["lovlas", "thibot"]).to_string();
    let name = rng.pick(&["Lovlas", "Thi \"bot\"", "Ñandú"]).to_string();
    let rating = 800 + rng.below(2200) as u32;
    let ns = json_string(&name, rng);
    o.raw("id", format!("\"{}\"", id)).raw("name", ns).raw("rating", rating.to_string());
    expect.push((format!("{}/id", prefix), json!(id)));
    expect.push((format!("{}/name", prefix), json!(name)));
    expect.push((format!("{}/rating", prefix), json!(rating)));
    let title = opt(rng, |r| r.pick(&["IM", "BOT"]).to_string());
    if let Some(t) = &title {
        o.raw("title", format!("\"{}\"", t));
    } else if rng.chance(1, 3) {
        o.raw("title", "null".into());
    }
    expect.push((format!("{}/title", prefix), json!(title)));
    for k in ["provisional", "patron", "online"] {
        let v = opt(rng, |r| r.chance(1, 2));
        if let Some(b) = v {
            o.raw(k, b.to_string());
        }
        expect.push((format!("{}/{}", prefix, k), json!(v)));
    }
    let lag = opt(rng, |r| r.below(5) as u32);
    if let Some(l) = lag {
        o.raw("lag", l.to_string());
    }
    expect.push((format!("{}/lag", prefix), json!(lag)));
    o.render(rng, true)
}

fn gen_event_stream(rng: &mut Rng, pool: &[Pos]) -> Vec<Doc> {
    let n = 1 + rng.usize_below(8);
    let mut docs = Vec::new();
    for _ in 0..n {
        let kind = *rng.pick(&["gameStart", "gameFinish", "challenge", "challengeCanceled", "challengeDeclined"]);
        let mut expect = vec![("/type".to_string(), json!(kind))];
        let mut top = ObjB::new();
        top.raw("type", format!("\"{}\"", kind));
        if kind.starts_with("game") {
            let mut g = ObjB::new();
            let gid = format!("{:08x}", rng.below(u32::MAX as u64));
            let full = format!("{}abcd", gid);
            let fen = rng.pick(pool).to_fen();
            let color = if rng.chance(1, 2) { "white" } else { "black" };
            let last_move = rng.pick(&["", "e2e4", "b8c6", "e7e8q"]).to_string();
            let source = *rng.pick(SOURCES);
            let status = if kind == "gameStart" { "started" } else { *rng.pick(STATUS) };
            let sid = 10 + rng.below(50) as u32;
            let v = *rng.pick(VARIANTS);
            let speed = *rng.pick(SPEEDS);
            let perf = *rng.pick(PERFS);
            let rated = rng.chance(1, 2);
            let has_moved = rng.chance(1, 2);
            g.raw("gameId", format!("\"{}\"", gid)).raw("fullId", format!("\"{}\"", full)).raw("fen", format!("\"{}\"", fen)).raw("color", format!("\"{}\"", color)).raw("lastMove", format!("\"{}\"", last_move));
            g.raw("source", format!("\"{}\"", source)).raw("status", format!("{{\"id\":{},\"name\":\"{}\"}}", sid, status)).raw("variant", format!("{{\"key\":\"{}\",\"name\":\"{}\"}}", v.0, v.1));
            g.raw("speed", format!("\"{}\"", speed)).raw("perf", format!("\"{}\"", perf)).raw("rated", rated.to_string()).raw("hasMoved", has_moved.to_string());
            if rng.chance(1, 2) {
                g.raw("isMyTurn", rng.chance(1, 2).to_string());
            }
            for (p, v) in [("gameId", json!(gid)), ("fullId", json!(full)), ("fen", json!(fen)), ("color", json!(color)), ("lastMove", json!(last_move)), ("source", json!(source)), ("status/id", json!(sid)), ("status/name", json!(status)), ("variant/key", json!(v.0)), ("variant/name", json!(v.1)), ("speed", json!(speed)), ("perf", json!(perf)), ("rated", json!(rated)), ("hasMoved", json!(has_moved))] {
                expect.push((format!("/game/{}", p), v));
            }
            let mut opp = ObjB::new();
            let oid = rng.pick(&["philippe", "bot-x"]).to_string();
            let oname = rng.pick(&["Philippe", "Zoë \"Z\""]).to_string();
            let ons = json_string(&oname, rng);
            opp.raw("id", format!("\"{}\"", oid)).raw("username", ons);
            expect.push(("/game/opponent/id".into(), json!(oid)));
            expect.push(("/game/opponent/username".into(), json!(oname)));
            let orating = opt(rng, |r| 900 + r.below(2000) as u32);
            if let Some(r) = orating {
                opp.raw("rating", r.to_string());
            }
            expect.push(("/game/opponent/rating".into(), json!(orating)));
            let odiff = opt(rng, |r| r.range(-30, 30) as i32);
            if let Some(d) = odiff {
                opp.raw("ratingDiff", d.to_string());
            }
            expect.push(("/game/opponent/ratingDiff".into(), json!(odiff)));
            let oai = opt(rng, |r| 1 + r.below(8) as u32);
            if let Some(a) = oai {
                opp.raw("ai", a.to_string());
            }
            expect.push(("/game/opponent/ai".into(), json!(oai)));
            let opp_text = opp.render(rng, true);
            g.raw("opponent", opp_text);
            let secs = opt(rng, |r| r.below(1_300_000) as u32);
            if let Some(s) = secs {
                g.raw("secondsLeft", s.to_string());
            }
            expect.push(("/game/secondsLeft".into(), json!(secs)));
            for k in ["tournamentId", "swissId"] {
                let v = opt(rng, |r| format!("x{:05x}", r.below(1 << 20)));
                if let Some(s) = &v {
                    g.raw(k, format!("\"{}\"", s));
                }
                expect.push((format!("/game/{}", k), json!(v)));
            }
            for k in ["orientation", "winner"] {
                let v = opt(rng, |r| if r.chance(1, 2) { "white" } else { "black" });
                if let Some(s) = v {
                    g.raw(k, format!("\"{}\"", s));
                }
                expect.push((format!("/game/{}", k), json!(v)));
            }
            let rd = opt(rng, |r| r.range(-25, 25) as i32);
            if let Some(d) = rd {
                g.raw("ratingDiff", d.to_string());
            }
            expect.push(("/game/ratingDiff".into(), json!(rd)));
            let compat = opt(rng, |r| (r.chance(1, 2), r.chance(1, 2)));
            if let Some((b, bd)) = compat {
                g.raw("compat", format!("{{\"bot\":{},\"board\":{}}}", b, bd));
                expect.push(("/game/compat/bot".into(), json!(b)));
                expect.push(("/game/compat/board".into(), json!(bd)));
            } else {
                expect.push(("/game/compat".into(), Value::Null));
            }
            let g_text = g.render(rng, true);
            top.raw("game", g_text);
        } else {
            let mut c = ObjB::new();
            let id = format!("{:08x}", rng.below(u32::MAX as u64));
            let url = format!("https://lichess.org/{}", id);
            let status = match kind {
                "challenge" => "created",
                "challengeCanceled" => "canceled",
                _ => "declined",
            };
            let v = *rng.pick(VARIANTS);
            let rated = rng.chance(1, 2);
            let speed = *rng.pick(SPEEDS);
            let color = *rng.pick(&["random", "white", "black"]);
            let final_color = if rng.chance(1, 2) { "white" } else { "black" };
            c.raw("id", format!("\"{}\"", id)).raw("url", format!("\"{}\"", url)).raw("status", format!("\"{}\"", status)).raw("variant", format!("{{\"key\":\"{}\",\"name\":\"{}\",\"short\":\"{}\"}}", v.0, v.1, v.2));
            c.raw("rated", rated.to_string()).raw("speed", format!("\"{}\"", speed)).raw("color", format!("\"{}\"", color)).raw("finalColor", format!("\"{}\"", final_color)).raw("perf", "{\"icon\":\"#\",\"name\":\"Rapid\"}".into());
            for (p, val) in [("id", json!(id)), ("url", json!(url)), ("status", json!(status)), ("variant/key", json!(v.0)), ("variant/short", json!(v.2)), ("rated", json!(rated)), ("speed", json!(speed)), ("color", json!(color)), ("finalColor", json!(final_color)), ("perf/icon", json!("#")), ("perf/name", json!("Rapid"))] {
                expect.push((format!("/challenge/{}", p), val));
            }
            match rng.below(3) {
                0 => {
                    let (l, i) = (rng.below(10800) as u32, rng.below(60) as u32);
                    c.raw("timeControl", format!("{{\"type\":\"clock\",\"limit\":{},\"increment\":{},\"show\":\"{}+{}\"}}", l, i, l / 60, i));
                    expect.push(("/challenge/timeControl/type".into(), json!("clock")));
                    expect.push(("/challenge/timeControl/limit".into(), json!(l)));
                    expect.push(("/challenge/timeControl/increment".into(), json!(i)));
                }
                1 => {
                    let d = 1 + rng.below(14) as u32;
                    c.raw("timeControl", format!("{{\"type\":\"correspondence\",\"daysPerTurn\":{}}}", d));
                    expect.push(("/challenge/timeControl/type".into(), json!("correspondence")));
                    expect.push(("/challenge/timeControl/daysPerTurn".into(), json!(d)));
                }
                _ => {
                    c.raw("timeControl", "{\"type\":\"unlimited\"}".into());
                    expect.push(("/challenge/timeControl/type".into(), json!("unlimited")));
                }
            }
            if rng.chance(3, 4) {
                let t = challenger(rng, &mut expect, "/challenge/challenger");
                c.raw("challenger", t);
            } else {
                if rng.chance(1, 2) {
                    c.raw("challenger", "null".into());
                }
                expect.push(("/challenge/challenger".into(), Value::Null));
            }
            if rng.chance(1, 2) {
                let t = challenger(rng, &mut expect, "/challenge/destUser");
                c.raw("destUser", t);
            } else {
                expect.push(("/challenge/destUser".into(), Value::Null));
            }
            let rematch = opt(rng, |r| format!("{:08x}", r.below(u32::MAX as u64)));
            if let Some(r) = &rematch {
                c.raw("rematchOf", format!("\"{}\"", r));
            }
            expect.push(("/challenge/rematchOf".into(), json!(rematch)));
            let dir = opt(rng, |r| if r.chance(1, 2) { "in" } else { "out" });
            if let Some(d) = dir {
                c.raw("direction", format!("\"{}\"", d));
            }
            expect.push(("/challenge/direction".into(), json!(dir)));
            let ifen = opt(rng, |r| r.pick(pool).to_fen());
            if let Some(f) = &ifen {
                c.raw("initialFen", format!("\"{}\"", f));
            }
            expect.push(("/challenge/initialFen".into(), json!(ifen)));
            // rules: omitted, or in the comma-separated form the decoder is written for
            if rng.chance(1, 3) {
                let all = ["noAbort", "noRematch", "noGiveTime", "noClaimWin", "noEarlyDraw"];
                let k = 1 + rng.usize_below(3);
                let picked: Vec<&str> = (0..k).map(|i| all[(i * 2 + rng.usize_below(2)) % 5]).collect();
                c.raw("rules", format!("\"{}\"", picked.join(",")));
                expect.push(("/challenge/rules".into(), json!(picked)));
            } else {
                expect.push(("/challenge/rules".into(), json!([])));
            }
            let c_text = c.render(rng, true);
            top.raw("challenge", c_text);
            if kind == "challenge" {
                let compat = opt(rng, |r| (r.chance(1, 2), r.chance(1, 2)));
                if let Some((b, bd)) = compat {
                    top.raw("compat", format!("{{\"bot\":{},\"board\":{}}}", b, bd));
                    expect.push(("/compat/bot".into(), json!(b)));
                } else {
                    expect.push(("/compat".into(), Value::Null));
                }
            }
        }
        docs.push(Doc { wire: top.render(rng, true), expect, game: None });
    }
    docs
}

pub fn gen_plan(seed: u64, _thorough: bool, pool: &[Pos]) -> ApiPlan {
    let mut rng = Rng::new(seed);
    let game = rng.chance(2, 3);
    let docs = if game { gen_game_stream(&mut rng, pool) } else { gen_event_stream(&mut rng, pool) };
    let keepalives: Vec<u8> = (0..1 + rng.below(5)).map(|_| *rng.pick(&[0u8, 0, 1, 2, 5])).collect();
    let frag: Vec<usize> = match rng.below(6) {
        0 => vec![0],
        1 => vec![1],
        2 => vec![2],
        3 => (0..1 + rng.below(10)).map(|_| *rng.pick(&[1usize, 2, 3, 5, 17, 0])).collect(),
        4 => vec![3, 1, 4, 1, 5, 9, 2, 6],
        _ => (0..1 + rng.below(20)).map(|_| 1 + rng.usize_below(200)).collect(),
    };
    ApiPlan { stream: if game { "game".into() } else { "event".into() }, docs, keepalives, crlf: rng.chance(1, 3), frag, pending_every: *rng.pick(&[0usize, 0, 2, 3, 7]), bufcap: *rng.pick(&[1usize, 2, 3, 8, 64, 8192]) }
}

// ------------------------------------------------------------------ execution + oracle

fn body_bytes(plan: &ApiPlan) -> Vec<u8> {
    let nl = if plan.crlf { "\r\n" } else { "\n" };
    let mut s = String::new();
    for (i, d) in plan.docs.iter().enumerate() {
        let k = if plan.keepalives.is_empty() { 0 } else { plan.keepalives[i % plan.keepalives.len()] };
        for _ in 0..k {
            s.push_str(nl);
        }
        s.push_str(&d.wire);
        s.push_str(nl);
    }
    s.push_str(nl);
    s.into_bytes()
}

fn decode_all(plan: &ApiPlan, frag: &[usize], pending_every: usize, bufcap: usize, stats: Arc<Mutex<(u64, u64, u64)>>) -> Result<Vec<Value>, String> {
    let n = plan.docs.len();
    let http = SimHttp { body: Mutex::new(Some((body_bytes(plan), frag.to_vec(), pending_every, bufcap))), stats, urls: Mutex::new(Vec::new()) };
    // mirrors lichess_bot::create_client (no time-out, lichess.org as base URL) with the transport swapped
    let base = surf::Url::parse("https://lichess.org/").map_err(|e| e.to_string())?;
    let client: surf::Client = surf::Config::new().set_timeout(None).set_base_url(base).set_http_client(http).try_into().map_err(|e| format!("client: {:?}", e))?;
    let api = BotApi::new(SurfWebClient::new("token", client));
    let game = plan.stream == "game";
    let r = catch_unwind(AssertUnwindSafe(|| {
        futures::executor::block_on(async {
            let mut out = Vec::new();
            if game {
                let s = api.stream_bot_game_state("abcd1234").await.map_err(|e| format!("{:?}", e))?;
                futures::pin_mut!(s);
                for _ in 0..n {
                    match s.next().await {
                        Some(v) => out.push(serde_json::to_value(&v).map_err(|e| e.to_string())?),
                        None => break,
                    }
                }
            } else {
                let s = api.stream_incoming_events().await.map_err(|e| format!("{:?}", e))?;
                futures::pin_mut!(s);
                for _ in 0..n {
                    match s.next().await {
                        Some(v) => out.push(serde_json::to_value(&v).map_err(|e| e.to_string())?),
                        None => break,
                    }
                }
            }
            Ok::<Vec<Value>, String>(out)
        })
    }));
    match r {
        Ok(x) => x,
        Err(e) => Err(format!("panic: {}", panic_message(&e))),
    }
}

pub fn exec_plan(plan: &ApiPlan) -> RunResult {
    let mut res = RunResult::default();
    let mut log = Fnv::default();
    for d in &plan.docs {
        log.write_str(&d.wire);
    }
    for f in &plan.frag {
        log.write_u64(*f as u64);
    }
    log.write_u64(plan.bufcap as u64);
    res.hash = log.0;
    let mut shape = Fnv::default();
    shape.write_str(&plan.stream);
    shape.write_u64(plan.docs.len() as u64);
    shape.write_u64(plan.frag.len() as u64 * 16 + plan.pending_every as u64);
    res.shape = shape.0;
    res.steps = plan.docs.len() as u64;
    res.nontrivial = !plan.docs.is_empty();
    if let Err(v) = judge(plan, &mut res) {
        res.violation = Some(v);
    }
    observe(&mut res);
    res
}

/// Observational only (counters in the evidence, never a verdict): document shapes I believe the
/// Lichess API sends but could not verify offline.
fn observe(res: &mut RunResult) {
    use inkayaku_lichess_api::api::bot_event_response::BotEvent;
    use inkayaku_lichess_api::api::bot_game_state_response::BotGameState;
    let ch = |extra: &str| format!("{{\"type\":\"challengeDeclined\",\"challenge\":{{\"id\":\"a\",\"url\":\"u\",\"status\":\"declined\",\"variant\":{{\"key\":\"standard\",\"name\":\"Standard\",\"short\":\"Std\"}},\"rated\":true,\"speed\":\"rapid\",\"timeControl\":{{\"type\":\"unlimited\"}},\"color\":\"random\",\"finalColor\":\"black\",\"perf\":{{\"icon\":\"#\",\"name\":\"Rapid\"}}{}}}}}", extra);
    let gs = |perf: &str, source: &str| format!("{{\"type\":\"gameStart\",\"game\":{{\"gameId\":\"g\",\"fullId\":\"gf\",\"fen\":\"8/8/8/8/8/8/8/8 w - - 0 1\",\"color\":\"white\",\"lastMove\":\"\",\"source\":\"{}\",\"status\":{{\"id\":20,\"name\":\"started\"}},\"variant\":{{\"key\":\"horde\",\"name\":\"Horde\"}},\"speed\":\"blitz\",\"perf\":\"{}\",\"rated\":false,\"hasMoved\":false,\"opponent\":{{\"id\":\"o\",\"username\":\"O\"}}}}}}", source, perf);
    let cases: Vec<(&str, bool)> = vec![
        ("obs.challenge_rules_as_json_array", serde_json::from_str::<BotEvent>(&ch(",\"rules\":[\"noAbort\",\"noRematch\"]")).is_ok()),
        ("obs.challenge_decline_reason_free_text", serde_json::from_str::<BotEvent>(&ch(",\"declineReason\":\"I'm not accepting challenges at the moment.\",\"declineReasonKey\":\"generic\"")).is_ok()),
        ("obs.game_perf_horde", serde_json::from_str::<BotEvent>(&gs("horde", "friend")).is_ok()),
        ("obs.game_source_tournament", serde_json::from_str::<BotEvent>(&gs("blitz", "tournament")).is_ok()),
        ("obs.game_source_arena", serde_json::from_str::<BotEvent>(&gs("blitz", "arena")).is_ok()),
        ("obs.game_full_ai_player_without_id", serde_json::from_str::<BotGameState>("{\"type\":\"gameFull\",\"id\":\"x\",\"variant\":{\"key\":\"standard\",\"name\":\"Standard\",\"short\":\"Std\"},\"speed\":\"blitz\",\"perf\":{\"name\":\"Blitz\"},\"rated\":false,\"createdAt\":1,\"white\":{\"aiLevel\":3},\"black\":{\"id\":\"b\",\"name\":\"B\"},\"initialFen\":\"startpos\",\"state\":{\"type\":\"gameState\",\"moves\":\"\",\"wtime\":1,\"btime\":1,\"winc\":0,\"binc\":0,\"status\":\"started\"}}").is_ok()),
    ];
    for (name, ok) in cases {
        res.bump(&format!("{}_{}", name, if ok { "decodes" } else { "REJECTED" }));
    }
}

fn judge(plan: &ApiPlan, res: &mut RunResult) -> Result<(), Violation> {
    let stats = Arc::new(Mutex::new((0u64, 0u64, 0u64)));
    let cfg = format!("{} stream, {} documents, fragments {:?}, Pending every {}, BufReader capacity {}, {} line ends", plan.stream, plan.docs.len(), &plan.frag[..plan.frag.len().min(10)], plan.pending_every, plan.bufcap, if plan.crlf { "CRLF" } else { "LF" });
    let got = decode_all(plan, &plan.frag, plan.pending_every, plan.bufcap, stats.clone()).map_err(|m| {
        let class = if m.contains("panic") { "decode_failed" } else { "stream_error" };
        // which document type broke it?
        let kinds: Vec<String> = plan.docs.iter().filter_map(|d| d.expect.iter().find(|e| e.0 == "/type").map(|e| e.1.as_str().unwrap_or("").to_string())).collect();
        Violation::new("C19", class, format!("{}: {} (document types {:?})", cfg, m, kinds)).with("stream", json!(plan.stream))
    })?;
    if let Ok(s) = stats.lock() {
        res.add("fault.fragmented_read", s.0);
        res.add("fault.fragment_inside_utf8_sequence", s.1);
        res.add("fault.pending_gap", s.2);
    }
    res.add("fault.keepalive_blank_line", plan.docs.iter().enumerate().map(|(i, _)| if plan.keepalives.is_empty() { 0 } else { plan.keepalives[i % plan.keepalives.len()] as u64 }).sum());
    if got.len() != plan.docs.len() {
        return Err(Violation::new("C19", "item_count_mismatch", format!("{}: {} items decoded, {} sent", cfg, got.len(), plan.docs.len())));
    }
    for (i, (v, d)) in got.iter().zip(plan.docs.iter()).enumerate() {
        for (ptr, want) in &d.expect {
            let have = v.pointer(ptr).cloned().unwrap_or(Value::Null);
            if have != *want {
                return Err(Violation::new("C19", "decoded_value_mismatch", format!("{}: document #{} {}: decoded {} expected {} (wire: {})", cfg, i, ptr, have, want, d.wire)).with("field", json!(ptr.rsplit('/').next().unwrap_or(""))));
            }
        }
        res.bump(&format!("docs.{}", v.get("type").and_then(Value::as_str).unwrap_or("?")));
        if let Some((fen, moves, white_after)) = &d.game {
            // consumer logic of lichess_bot::GameThread re-applied to the decoded value
            let decoded_moves: Vec<String> = v.pointer(if v.get("state").is_some() { "/state/moves" } else { "/moves" }).and_then(Value::as_array).map(|a| a.iter().filter_map(|x| x.as_str().map(str::to_string)).collect()).unwrap_or_default();
            if decoded_moves != *moves {
                return Err(Violation::new("C19", "move_list_mismatch", format!("{}: document #{} decoded moves {:?} expected {:?}", cfg, i, decoded_moves, moves)));
            }
            let start = if fen == "startpos" { refchess::START_FEN.to_string() } else { fen.clone() };
            let mut b = Bitboard::from_fen_string(&start).map_err(|e| Violation::new("C12", "legal_fen_rejected", format!("{:?}", e)))?;
            for m in &decoded_moves {
                let um = UciMove::from_str(m).map_err(|e| Violation::new("C19", "move_not_accepted_by_uci_parser", format!("{}: {:?} -> {:?}", cfg, m, e)))?;
                b.make_uci(&um.to_string()).map_err(|e| Violation::new("C19", "move_list_not_replayable", format!("{}: {:?} -> {:?}", cfg, m, e)))?;
            }
            if (b.turn == 0) != *white_after {
                return Err(Violation::new("C19", "turn_after_replay_mismatch", format!("{}: document #{}", cfg, i)));
            }
            res.add("moves_decoded", decoded_moves.len() as u64);
            if decoded_moves.iter().any(|m| m.len() == 5) {
                res.bump("probe.promotion_in_move_list");
            }
            if decoded_moves.is_empty() {
                res.bump("probe.empty_move_list");
            }
        }
    }
    // differential: one fragment, no gaps
    let whole = decode_all(plan, &[0], 0, 8192, Arc::new(Mutex::new((0, 0, 0)))).map_err(|m| Violation::new("C19", "decode_failed", format!("single-fragment delivery: {}", m)))?;
    if whole != got {
        return Err(Violation::new("C19", "result_depends_on_fragmentation", format!("{}: differs from single-fragment delivery", cfg)));
    }
    Ok(())
}

// ------------------------------------------------------------------ CLI (same protocol as the main simulator's workers)

fn pool() -> Vec<Pos> {
    const FENS: &[&str] = &[
        "rnbqkbnr/pppppppp/8/8/8/8/PPPPPPPP/RNBQKBNR w KQkq - 0 1",
        "r3k2r/p1ppqpb1/bn2pnp1/3PN3/1p2P3/2N2Q1p/PPPBBPPP/R3K2R w KQkq - 0 1",
        "r3k2r/8/8/8/8/8/8/R3K2R b KQkq - 0 1",
        "1n1n4/PPP5/8/8/8/8/6k1/4K3 w - - 0 1",
        "4k3/8/8/8/8/8/ppp5/1N1NK3 b - - 0 1",
        "8/5P1k/8/8/8/8/8/K7 w - - 0 1",
        "rnbqkbnr/ppp1p1pp/8/3pPp2/8/8/PPPP1PPP/RNBQKBNR w KQkq f6 0 3",
        "8/8/1p2k1p1/1P2p1P1/4P3/4K3/8/8 b - - 12 52",
        "r1bq1rk1/pp2bppp/2n1pn2/2pp4/3P1B2/2PBPN2/PP1N1PPP/R2QK2R w KQ - 4 8",
    ];
    FENS.iter().filter_map(|f| Pos::from_fen(f).ok()).collect()
}

fn main() {
    let args: Vec<String> = std::env::args().skip(1).collect();
    // the code under test prints every line with println!: keep the result channel separate
    let out_fd = unsafe { libc::dup(1) };
    unsafe {
        let null = libc::open(b"/dev/null\0".as_ptr() as *const libc::c_char, libc::O_WRONLY);
        if null >= 0 {
            libc::dup2(null, 1);
        }
    }
    let mut out = unsafe { std::fs::File::from_raw_fd(out_fd) };
    std::panic::set_hook(Box::new(|_| {}));
    let code = match args.first().map(String::as_str) {
        Some("worker") if args.len() >= 6 => {
            let thorough = args[2] == "thorough";
            let base: u64 = args[3].parse().unwrap_or(0);
            let from: u64 = args[4].parse().unwrap_or(0);
            let to: u64 = args[5].parse().unwrap_or(0);
            let pool = pool();
            for run in from..to {
                let seed = rng::mix(base, 19, run);
                let plan = gen_plan(seed, thorough, &pool);
                let mut res = exec_plan(&plan);
                res.run = run;
                res.seed = seed;
                if res.violation.is_some() || run < 3 {
                    res.plan = serde_json::to_value(&plan).ok().map(|mut v| {
                        if let Some(o) = v.as_object_mut() {
                            o.insert("sim".into(), json!("Api"));
                        }
                        v
                    });
                }
                let _ = writeln!(out, "{}", serde_json::to_string(&res).unwrap_or_default());
                let _ = out.flush();
            }
            let _ = writeln!(out, "{{\"done\":true}}");
            0
        }
        Some("exec-plan") if args.len() >= 2 => match std::fs::read_to_string(&args[1]).ok().and_then(|t| serde_json::from_str::<Value>(&t).ok()).and_then(|mut v| {
            if let Some(o) = v.as_object_mut() {
                o.remove("sim");
            }
            serde_json::from_value::<ApiPlan>(v).ok()
        }) {
            Some(plan) => {
                let res = exec_plan(&plan);
                let _ = writeln!(out, "{}", serde_json::to_string(&res).unwrap_or_default());
                0
            }
            None => 2,
        },
        _ => {
            eprintln!("usage: sim_api worker C19 <tier> <base> <from> <to> | exec-plan <file>");
            2
        }
    };
    let _ = out.flush();
    std::process::exit(code);
}

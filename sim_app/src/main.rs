//! AppLineSim — the output path of the shipped binary (engine_app/src/main.rs: `print_ln` behind
//! `ConsoleUciTx`) written to by two or three threads at once, the way the reader thread (id / uciok /
//! readyok lines) and the search thread (info / bestmove lines) share it in the real process.
//!
//! The program is meant to run under Miri: Miri owns the scheduler, its seed (-Zmiri-seed) and
//! preemption rate decide every thread switch inside the real std::io::Stdout code, so one
//! (workload, seed, rate) triple is one exactly repeatable interleaving. The workload (who writes
//! which lines) is part of the plan and comes in through argv:
//!
//!   appline concurrent <spec>   every thread of the spec writes its lines, all released together
//!   appline sequential <spec>   same lines, one thread after the other (reference output)
//!
//!   spec    = thread *( "/" thread )        thread = item *( "," item )
//!   item    = "N" text | "A" text | "U" | "R" | "B" move [ ":" move ]
//!           | "I" depth ":" nodes ":" time-ms ":" cp ":" move *( "+" move ) [ ":" text ]
//!
//! engine_app/src/main.rs is compiled into this program unchanged (include!), without the verif cfg.
#![allow(dead_code, unused_imports, unexpected_cfgs)]

mod app {
    include!("../../../repo/engine_app/src/main.rs");

    /// The transmitter exactly as `main` builds it.
    pub fn make_tx() -> Arc<ConsoleUciTx<fn(&str), fn(&str)>> {
        Arc::new(ConsoleUciTx::new(print_ln as fn(&str), print_err as fn(&str), DEBUG_DEFAULT))
    }
}

use std::sync::Arc;
use std::time::Duration;

use inkayaku_uci::{Info, Score, UciMove, UciTx};

#[derive(Clone)]
enum Out {
    IdName(String),
    IdAuthor(String),
    UciOk,
    ReadyOk,
    Best(Option<String>, Option<String>),
    Info { depth: u32, nodes: u64, time_ms: u64, cp: i32, pv: Vec<String>, string: Option<String> },
}

fn parse_item(item: &str) -> Out {
    let (kind, rest) = item.split_at(1);
    match kind {
        "N" => Out::IdName(rest.to_string()),
        "A" => Out::IdAuthor(rest.to_string()),
        "U" => Out::UciOk,
        "R" => Out::ReadyOk,
        "B" => {
            let mut it = rest.split(':');
            Out::Best(it.next().filter(|s| !s.is_empty()).map(str::to_string), it.next().map(str::to_string))
        }
        "I" => {
            let f: Vec<&str> = rest.splitn(6, ':').collect();
            Out::Info { depth: f[0].parse().expect("depth"), nodes: f[1].parse().expect("nodes"), time_ms: f[2].parse().expect("time"), cp: f[3].parse().expect("cp"), pv: f[4].split('+').map(str::to_string).collect(), string: f.get(5).map(|s| s.to_string()) }
        }
        _ => panic!("bad item {:?}", item),
    }
}

fn workload(spec: &str) -> Vec<Vec<Out>> {
    spec.split('/').map(|t| t.split(',').filter(|i| !i.is_empty()).map(parse_item).collect()).collect()
}

fn parse_mv(s: &str) -> UciMove {
    UciMove::parse(s).expect("generated move")
}

/// What a thread hands to the transmitter, built before the writers are released.
enum Ready {
    IdName(String),
    IdAuthor(String),
    UciOk,
    ReadyOk,
    Best(Option<UciMove>, Option<UciMove>),
    Info(Info),
}

fn prepare(o: &Out) -> Ready {
    match o {
        Out::IdName(n) => Ready::IdName(n.clone()),
        Out::IdAuthor(n) => Ready::IdAuthor(n.clone()),
        Out::UciOk => Ready::UciOk,
        Out::ReadyOk => Ready::ReadyOk,
        Out::Best(b, p) => Ready::Best(b.as_deref().map(parse_mv), p.as_deref().map(parse_mv)),
        Out::Info { depth, nodes, time_ms, cp, pv, string } => Ready::Info(Info { depth: Some(*depth), nodes: Some(*nodes), time: Some(Duration::from_millis(*time_ms)), score: Some(Score::Centipawn { score: *cp }), principal_variation: Some(pv.iter().map(|m| parse_mv(m)).collect()), string: string.clone(), ..Info::EMPTY }),
    }
}

fn emit<T: UciTx>(tx: &T, r: Ready) {
    match r {
        Ready::IdName(n) => tx.id_name(&n),
        Ready::IdAuthor(n) => tx.id_author(&n),
        Ready::UciOk => tx.uci_ok(),
        Ready::ReadyOk => tx.ready_ok(),
        Ready::Best(b, p) => tx.best_move(b, p),
        Ready::Info(i) => tx.info(&i),
    }
}

fn main() {
    let args: Vec<String> = std::env::args().collect();
    if args.len() != 3 {
        eprintln!("usage: appline concurrent|sequential <spec>");
        std::process::exit(2);
    }
    let w = workload(&args[2]);
    let tx = app::make_tx();
    match args[1].as_str() {
        "sequential" => {
            for t in &w {
                for o in t {
                    emit(&*tx, prepare(o));
                }
            }
        }
        "concurrent" => {
            // all writers start together (spawning a thread costs far more steps than writing a line)
            let gate = Arc::new(std::sync::Barrier::new(w.len()));
            let handles: Vec<_> = w
                .into_iter()
                .map(|t| {
                    let tx = tx.clone();
                    let gate = gate.clone();
                    std::thread::spawn(move || {
                        let ready: Vec<Ready> = t.iter().map(prepare).collect();
                        gate.wait();
                        for r in ready {
                            emit(&*tx, r);
                        }
                    })
                })
                .collect();
            for h in handles {
                h.join().expect("writer thread");
            }
        }
        _ => std::process::exit(2),
    }
}
